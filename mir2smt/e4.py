#!/usr/bin/env python3
"""Engine E4: the value facts of whole programs are inductive invariants (C01).

Native half: every program of the catalogue is pushed through the REAL pipeline
(parse + Manager::gen_full_cfg, binary `facts`, rebuilt from /repo on every run)
and the control-flow graph with the facts on each node is exported.
Solver half: for every node and every edge, z3 decides - for ALL entry register
files E, current register files R and memories M (bit-vectors and an array) -
  VC0  entry nodes: with R = E the facts leaving the entry hold;
  VC1  transfer:    gamma(IN(n)) in (E,R,M)  =>  gamma(OUT(n)) in (E, step(n)(R,M));
  VC2  edges n->m:  gamma(OUT(n)) => gamma(IN(m)).
Together these make the facts true on every execution along CFG edges (the
statement of C01 for that program).  A satisfying assignment is a concrete
machine state; it is re-evaluated in Python against the exported facts before
it is reported.

gamma:  reg r: Const(c)        R[r] = c
               Orig(q,k)       R[r] = E[q]+k
               Rws(q,k)        R[r] = R[q]+k
               Addr(l)         R[r] = address of l
        stack slot o: v        M[E[sp]+o] = value of v (same three forms)
        everything else (CSR, "memory at ..." descriptions): no claim.
Machine model: RV32IM, word-granular memory (accesses to one word use one
address), calls havoc caller-saved registers and ra and leave the caller's
frame alone (catalogue programs keep their slots at or above sp), ecall havocs
a0/a1.
"""
import itertools
import json
import os
import re
import subprocess
import sys
import time

HERE = os.path.dirname(os.path.abspath(__file__))
ROOT = os.path.dirname(HERE)
WORK = os.path.join(ROOT, ".work")
sys.path.insert(0, HERE)
import e2  # noqa: E402
import e3  # noqa: E402

bv32 = e3.bv32
CALLER_SAVED = [5, 6, 7, 28, 29, 30, 31] + list(range(10, 18))
# RARS "Supported syscalls" table: services that write a result register
A0_SERVICES = [5, 9, 12, 17, 30, 41, 42, 50, 51, 62, 63, 64, 1024]
A1_SERVICES = [30, 51, 52, 53, 54]
EXIT_SERVICES = [10, 93]


def build():
    env = dict(os.environ, CARGO_NET_OFFLINE="true", RUSTFLAGS="--cfg rva_verif")
    p = subprocess.run(["cargo", "build", "--bin", "facts", "--target-dir", os.path.join(WORK, "native")],
                       cwd=os.path.join(ROOT, "kani"), env=env, stdout=subprocess.PIPE, stderr=subprocess.STDOUT, text=True)
    if p.returncode != 0:
        raise RuntimeError("facts build failed:\n" + p.stdout[-2000:])
    return os.path.join(WORK, "native", "debug", "facts")


def R(st, r):
    return "#x00000000" if r == 0 else st["r"][r]


def E(r):
    return "#x00000000" if r == 0 else "e%d" % r


def val_term(v, st):
    t = v["t"]
    if t == "Const":
        return bv32(v["c"])
    if t == "Orig":
        return "(bvadd %s %s)" % (E(v["r"]), bv32(v["k"]))
    if t == "Rws":
        return "(bvadd %s %s)" % (R(st, v["r"]), bv32(v["k"]))
    if t == "Addr":
        return "la_%s" % re.sub(r"\W", "_", v["l"])
    if t == "Vic":
        # "the value inside a CSR": the content the CSR had on entry to the enclosing function
        # (the handler idiom csrrw a0, uscratch, a0 ... sw t0, 0(a0) ... lw t0, 0(a0) relies on every
        # register so tagged holding one and the same pointer)
        return "(select CE %s)" % csr_index(v["n"])
    return None


def gamma(regs, mem, st):
    """conjunction (list of SMT terms) of the claims in a fact pair"""
    out = []
    for r, v in regs:
        t = val_term(v, st)
        if t is not None:
            out.append(("reg x%d = %s" % (r, json.dumps(v)), "(= %s %s)" % (R(st, r), t)))
    for loc, v in mem:
        if loc["t"] == "Csr":
            t = val_term(v, st)
            if t is not None:
                out.append(("csr 0x%03x = %s" % (loc["n"], json.dumps(v)),
                            "(= (select %s %s) %s)" % (st.get("c", "CS"), csr_index(loc["n"]), t)))
            continue
        if loc["t"] == "CsrMem":
            t = val_term(v, st)
            if t is not None:
                addr = "(bvadd (select CE %s) %s)" % (csr_index(loc["n"]), bv32(loc["o"]))
                out.append(("word at [csr 0x%03x on entry]%+d = %s" % (loc["n"], loc["o"], json.dumps(v)),
                            "(= (select %s %s) %s)" % (st["m"], addr, t)))
            continue
        if loc["t"] != "Stack":
            continue
        t = val_term(v, st)
        if t is not None:
            addr = "(bvadd %s %s)" % (E(2), bv32(loc["o"]))
            out.append(("slot sp_entry%+d = %s" % (loc["o"], json.dumps(v)), "(= (select %s %s) %s)" % (st["m"], addr, t)))
    return out


def csr_index(n):
    return "(_ bv%d 12)" % (n & 0xFFF)


def step(node, st, fresh):
    """-> post state (dict) for one node; fresh() makes a new havoc constant.
    CSRs are plain 32-bit storage cells (array CS): a write stores the whole word and a read returns
    the last word written; WARL field masking of particular CSRs is not modelled."""
    i = node["inst"]
    post = {"r": dict(st["r"]), "m": st["m"], "c": st.get("c", "CS")}
    if node["kind"] != "inst" or i is None:
        return post

    def setr(rd, term):
        if rd != 0:
            post["r"][rd] = term
    k = i["k"]
    if k == "Alu":
        setr(i["rd"], e2.ref_term(i["op"].lower(), R(st, i["rs1"]), R(st, i["rs2"])))
    elif k == "AluImm":
        setr(i["rd"], e2.ref_term(i["op"].lower(), R(st, i["rs1"]), bv32(i["imm"])))
    elif k == "Const":
        setr(i["rd"], ("la_%s" % re.sub(r"\W", "_", node["label"])) if node.get("label") else bv32(i["value"]))
    elif k == "Jal":
        if node["call"]:
            for r in CALLER_SAVED + [1]:
                setr(r, fresh())
        else:
            setr(i["rd"], fresh())
    elif k == "Jalr":
        setr(i["rd"], fresh())
    elif k == "Load":
        addr = "(bvadd %s %s)" % (R(st, i["rs1"]), bv32(i["imm"]))
        w = "(select %s %s)" % (st["m"], addr)
        if i["width"] == "W":
            v = w
        else:
            bits = 8 if i["width"] == "B" else 16
            ext = "sign_extend" if i["signed"] else "zero_extend"
            v = "((_ %s %d) ((_ extract %d 0) %s))" % (ext, 32 - bits, bits - 1, w)
        setr(i["rd"], v)
    elif k == "Store":
        addr = "(bvadd %s %s)" % (R(st, i["rs1"]), bv32(i["imm"]))
        v = R(st, i["rs2"])
        if i["width"] != "W":
            mask = "#x000000ff" if i["width"] == "B" else "#x0000ffff"
            old = "(select %s %s)" % (st["m"], addr)
            v = "(bvor (bvand %s (bvnot %s)) (bvand %s %s))" % (old, mask, v, mask)
        post["m"] = "(store %s %s %s)" % (st["m"], addr, v)
    elif k in ("Csr", "CsrImm"):
        cs = st.get("c", "CS")
        idx = csr_index(i["csr"])
        old = "(select %s %s)" % (cs, idx)
        src = R(st, i["rs1"]) if k == "Csr" else bv32(i["uimm"])
        no_write = (k == "Csr" and i["rs1"] == 0) or (k == "CsrImm" and i["uimm"] == 0)
        op = i["op"]
        if op == "Rw":
            new = src
        elif op == "Rs":
            new = None if no_write else "(bvor %s %s)" % (old, src)
        elif op == "Rc":
            new = None if no_write else "(bvand %s (bvnot %s))" % (old, src)
        else:
            raise ValueError("csr op %r" % op)
        setr(i["rd"], old)
        if new is not None:
            post["c"] = "(store %s %s %s)" % (cs, idx, new)
    elif k == "System" and "ecall" in node["text"]:
        # RARS environment calls (documented service table): which services return a value in a0 / a1
        a7 = R(st, 17)
        in_set = lambda nums: "(or false %s)" % " ".join("(= %s %s)" % (a7, bv32(n)) for n in nums)  # noqa: E731
        setr(10, "(ite %s %s %s)" % (in_set(A0_SERVICES), fresh(), R(st, 10)))
        setr(11, "(ite %s %s %s)" % (in_set(A1_SERVICES), fresh(), R(st, 11)))
    return post


def csr_untouched(nodes):
    """Auxiliary invariant (ours, proved by the same VCs): the CSRs no path has written since the
    enclosing entry.  The tool's "value inside a CSR" tag only means something relative to it:
    forward must-analysis over the exported CFG, all CSRs named in the program, killed by every CSR
    instruction that writes and by calls."""
    def written(n):
        i = n["inst"]
        if n["kind"] != "inst" or i is None:
            return set()
        if n.get("call"):
            return None   # everything
        if i["k"] == "Csr" and (i["op"] == "Rw" or i["rs1"] != 0):
            return {i["csr"]}
        if i["k"] == "CsrImm" and (i["op"] == "Rw" or i["uimm"] != 0):
            return {i["csr"]}
        return set()
    allc = set()
    for n in nodes:
        if n["kind"] == "inst" and n["inst"] and n["inst"]["k"] in ("Csr", "CsrImm"):
            allc.add(n["inst"]["csr"])
    u_in = [set(allc) for _ in nodes]
    u_out = [set(allc) for _ in nodes]
    changed = True
    while changed:
        changed = False
        for idx, n in enumerate(nodes):
            if n["kind"] in ("program_entry", "func_entry"):
                ni = set(allc)
            else:
                preds = [p for p in n.get("prevs", []) if p >= 0]
                ni = set(allc)
                for p in preds:
                    ni &= u_out[p]
            w = written(n)
            no = set() if w is None else ni - w
            if ni != u_in[idx] or no != u_out[idx]:
                u_in[idx], u_out[idx] = ni, no
                changed = True
    return u_in, u_out


def ghost_terms(cs, st):
    return [("[auxiliary] csr 0x%03x holds its entry content" % c,
             "(= (select %s %s) (select CE %s))" % (st.get("c", "CS"), csr_index(c), csr_index(c))) for c in sorted(cs)]


def is_aux_reg(v):
    return v["t"] == "Vic"


def is_aux_mem(loc):
    return loc["t"] == "CsrMem"


def houdini(nodes, decls):
    """Auxiliary facts, inferred with the solver (Houdini: start from every candidate, drop the ones
    whose verification condition is satisfiable, repeat until the remaining ones are inductive).
    Candidates: (i) "CSR c holds its entry content here" (ours; the syntactic `csr_untouched` is too
    weak for a handler that swaps a register with uscratch twice), and (ii) the tool's own `ValueInCsr`
    register tags and CSR-pointed memory facts.  Those tags are none of the kinds of claim C01 lists
    (constant, label address, entry value + constant, stack slot) and have no meaning that all of them
    satisfy; they are kept exactly as far as they are inductive under the reading "the content the CSR
    had on entry", and whatever C01-kind claim the tool derives from a tag that is NOT inductive then
    fails its own verification condition - that is what gets reported.
    -> (nodes with the non-inductive auxiliary facts removed, (u_in, u_out), rounds, dropped)"""
    allc = set()
    for n in nodes:
        if n["kind"] == "inst" and n["inst"] and n["inst"]["k"] in ("Csr", "CsrImm"):
            allc.add(n["inst"]["csr"])
    work = [dict(n, rin=list(n["rin"]), rout=list(n["rout"]), min=list(n["min"]), mout=list(n["mout"])) for n in nodes]
    base = {"r": {i: "r%d" % i for i in range(1, 32)}, "m": "M"}
    u_out = [set(allc) for _ in nodes]
    rounds, dropped = 0, 0
    entry_eq = " ".join("(= r%d e%d)" % (i, i) for i in range(1, 32)) + " (= CS CE)"
    while True:
        rounds += 1
        u_in = []
        for idx, n in enumerate(work):
            ni = set(allc)
            if n["kind"] not in ("program_entry", "func_entry"):
                for p in n.get("prevs", []):
                    if p >= 0:
                        ni &= u_out[p]
            u_in.append(ni)
        queries, where, extra = [], [], []
        cnt = [0]

        def fresh():
            cnt[0] += 1
            name = "g%d" % cnt[0]
            extra.append("(declare-const %s (_ BitVec 32))" % name)
            return name

        def aux_out(n):
            return [("rout", f) for f in n["rout"] if is_aux_reg(f[1])] + [("mout", f) for f in n["mout"] if is_aux_mem(f[0])]

        def aux_in(n):
            return [("rin", f) for f in n["rin"] if is_aux_reg(f[1])] + [("min", f) for f in n["min"] if is_aux_mem(f[0])]

        def term_of(side, f, st):
            g = gamma([f], [], st) if side[0] == "r" else gamma([], [f], st)
            return g[0][1] if g else None
        for idx, n in enumerate(work):
            if n["kind"] in ("program_entry", "func_entry"):
                for side, f in aux_out(n):
                    t = term_of(side, f, base)
                    if t:
                        queries.append("(and %s (not %s))" % (entry_eq, t))
                        where.append((idx, side, f))
            else:
                pre = " ".join([t for _, t in gamma(n["rin"], n["min"], base)] + [t for _, t in ghost_terms(u_in[idx], base)]) or "true"
                post = step(n, base, fresh)
                if n.get("call"):
                    u_out[idx] = set()
                for side, f in aux_out(n):
                    t = term_of(side, f, post)
                    if t:
                        queries.append("(and %s (not %s))" % (pre, t))
                        where.append((idx, side, f))
                for c in sorted(u_out[idx]):
                    queries.append("(and %s (not %s))" % (pre, ghost_terms([c], post)[0][1]))
                    where.append((idx, "ghost", c))
            have = None
            for m in n["nexts"]:
                if m < 0 or work[m]["kind"] in ("program_entry", "func_entry"):
                    continue
                for side, f in aux_in(work[m]):
                    t = term_of(side, f, base)
                    if t:
                        if have is None:
                            have = " ".join([x for _, x in gamma(n["rout"], n["mout"], base)] + [x for _, x in ghost_terms(u_out[idx], base)]) or "true"
                        queries.append("(and %s (not %s))" % (have, t))
                        where.append((m, side, f))
        verdicts = solve([(decls + extra, q) for q in queries]) if queries else []
        removed = False
        for (idx, side, f), v in zip(where, verdicts):
            if v == "unsat":
                continue
            if side == "ghost":
                if f in u_out[idx]:
                    u_out[idx].discard(f)
                    removed = True
            elif f in work[idx][side]:
                work[idx][side].remove(f)
                removed = True
                dropped += 1
        if not removed or rounds > 60:
            return work, (u_in, u_out), rounds, dropped


def body_of(nodes, entry):
    """indices of the nodes the graph reaches from the entry node `entry`"""
    seen, todo = set(), [entry]
    while todo:
        i = todo.pop()
        if i not in seen:
            seen.add(i)
            todo += [m for m in nodes[i]["nexts"] if m >= 0]
    return seen


def vcs_for(prog_nodes, ghost=None):
    """-> list of (description, node index, query string)"""
    counter = [0]
    decls = []

    def fresh():
        counter[0] += 1
        n = "h%d" % counter[0]
        decls.append("(declare-const %s (_ BitVec 32))" % n)
        return n
    base = {"r": {i: "r%d" % i for i in range(1, 32)}, "m": "M"}
    out = []
    u_in, u_out = ghost or csr_untouched(prog_nodes)

    def gamma(regs, mem, st, ghost=None):   # noqa: F811  (the exported facts plus the auxiliary invariant)
        return globals()["gamma"](regs, mem, st) + ghost_terms(ghost or (), st)
    for idx, n in enumerate(prog_nodes):
        pre_claims = gamma(n["rin"], n["min"], base, u_in[idx])
        post = step(n, base, fresh)
        if n["kind"] in ("program_entry", "func_entry"):
            # VC0: at an entry the current registers ARE the entry registers
            eq = " ".join("(= r%d e%d)" % (i, i) for i in range(1, 32)) + " (= CS CE)"
            for what, t in gamma(n["rout"], n["mout"], base):
                out.append(("VC0 entry fact %s" % what, idx, "(and %s (not %s))" % (eq, t)))
            continue
        pre = " ".join(t for _, t in pre_claims) or "true"
        if n["kind"] == "inst" and n["inst"] and n["inst"]["k"] == "System" and "ecall" in n["text"]:
            pre += " " + " ".join("(distinct r17 %s)" % bv32(x) for x in EXIT_SERVICES)
        for what, t in gamma(n["rout"], n["mout"], post, u_out[idx]):
            out.append(("VC1 after '%s': %s" % (n["text"], what), idx, "(and %s (not %s))" % (pre, t)))
        for m in n["nexts"]:
            if m < 0:
                continue
            succ = prog_nodes[m]
            have = " ".join(t for _, t in gamma(n["rout"], n["mout"], base, u_out[idx])) or "true"
            if succ["kind"] in ("program_entry", "func_entry"):
                # an entry node that is also the target of a jump / branch inside the function's own body (a loop back to the
                # function's label): the same activation goes on, so what leaves the entry node must already hold here.
                # (Falling or jumping into a function from OUTSIDE its body is a convention violation the tool reports, and
                # whether that starts a new activation is not for this check to say.)
                if idx not in body_of(prog_nodes, m):
                    continue
                for what, t in gamma(succ["rout"], succ["mout"], base):
                    out.append(("VC2 edge '%s' -> '%s' (an entry reached by a jump): %s" % (n["text"], succ["text"], what), idx, "(and %s (not %s))" % (have, t)))
                continue
            for what, t in gamma(succ["rin"], succ["min"], base, u_in[m]):
                out.append(("VC2 edge '%s' -> '%s': %s" % (n["text"], succ["text"], what), idx, "(and %s (not %s))" % (have, t)))
    return out, decls


def labels_of(prog_nodes):
    ls = set()
    for n in prog_nodes:
        if n.get("label"):
            ls.add(re.sub(r"\W", "_", n["label"]))
        for _, v in n["rin"] + n["rout"]:
            if v["t"] == "Addr":
                ls.add(re.sub(r"\W", "_", v["l"]))
    return sorted(ls)


def solve_cvc5(items, timeout_ms=20000):
    """Second opinion (used on the small families): the same queries through cvc5."""
    lines = ["(set-logic QF_ABV)", "(declare-const M (Array (_ BitVec 32) (_ BitVec 32)))",
             "(declare-const CS (Array (_ BitVec 12) (_ BitVec 32)))", "(declare-const CE (Array (_ BitVec 12) (_ BitVec 32)))"]
    lines += ["(declare-const r%d (_ BitVec 32))" % i for i in range(1, 32)]
    lines += ["(declare-const e%d (_ BitVec 32))" % i for i in range(1, 32)]
    for i, (decls, q) in enumerate(items):
        lines.append("(push 1)")
        lines.append('(echo "Q%d")' % i)   # first: an (error ...) line of this query must land in this query's chunk
        lines += decls
        lines += ["(assert %s)" % q, "(check-sat)", "(pop 1)"]
    p = subprocess.run(["cvc5", "--incremental", "--lang", "smt2", "--tlimit-per=%d" % timeout_ms], input="\n".join(lines) + "\n",
                       stdout=subprocess.PIPE, stderr=subprocess.STDOUT, text=True, timeout=3600)
    chunks = re.split(r'^"?Q(\d+)"?$', p.stdout, flags=re.M)
    res = {}
    for k in range(1, len(chunks), 2):
        c = chunks[k + 1]
        words = [w.strip() for w in c.strip().split("\n") if w.strip() in ("sat", "unsat", "unknown")]
        st = words[-1] if words else "?"
        res[int(chunks[k])] = "error" if "(error" in c else (st if st in ("sat", "unsat") else "unknown")
    if "(error" in chunks[0]:
        return ["error"] * len(items)
    return [res.get(i, "error") for i in range(len(items))]


def solve(items, timeout_ms=20000):
    """items: list of (decls, query).  One z3 process, push/pop per query."""
    lines = ["(set-logic QF_ABV)", "(set-option :produce-models true)", "(declare-const M (Array (_ BitVec 32) (_ BitVec 32)))",
             "(declare-const CS (Array (_ BitVec 12) (_ BitVec 32)))", "(declare-const CE (Array (_ BitVec 12) (_ BitVec 32)))"]
    lines += ["(declare-const r%d (_ BitVec 32))" % i for i in range(1, 32)]
    lines += ["(declare-const e%d (_ BitVec 32))" % i for i in range(1, 32)]
    for i, (decls, q) in enumerate(items):
        lines.append("(push 1)")
        lines.append('(echo "Q%d")' % i)   # first: an (error ...) line of this query must land in this query's chunk
        lines += decls
        lines += ["(assert %s)" % q, "(check-sat)", "(pop 1)"]
    p = subprocess.run(["/usr/bin/z3", "-in", "-t:%d" % timeout_ms], input="\n".join(lines) + "\n", stdout=subprocess.PIPE,
                       stderr=subprocess.STDOUT, text=True, timeout=7200)
    chunks = re.split(r'^"?Q(\d+)"?$', p.stdout, flags=re.M)
    res = {}
    for k in range(1, len(chunks), 2):
        c = chunks[k + 1]
        words = [w.strip() for w in c.strip().split("\n") if w.strip() in ("sat", "unsat", "unknown")]
        st = words[-1] if words else "?"
        res[int(chunks[k])] = "error" if "(error" in c else (st if st in ("sat", "unsat") else "unknown")
    if "(error" in chunks[0]:
        return ["error"] * len(items)
    return [res.get(i, "error") for i in range(len(items))]


def model_of(decls, q):
    lines = ["(set-logic QF_ABV)", "(set-option :produce-models true)", "(declare-const M (Array (_ BitVec 32) (_ BitVec 32)))",
             "(declare-const CS (Array (_ BitVec 12) (_ BitVec 32)))", "(declare-const CE (Array (_ BitVec 12) (_ BitVec 32)))"]
    lines += ["(declare-const r%d (_ BitVec 32))" % i for i in range(1, 32)]
    lines += ["(declare-const e%d (_ BitVec 32))" % i for i in range(1, 32)]
    lines += decls + ["(assert %s)" % q, "(check-sat)",
                      "(get-value (%s))" % " ".join(["r%d" % i for i in range(1, 32)] + ["e%d" % i for i in range(1, 32)])]
    p = subprocess.run(["/usr/bin/z3", "-in", "-t:20000"], input="\n".join(lines) + "\n", stdout=subprocess.PIPE,
                       stderr=subprocess.STDOUT, text=True, timeout=120)
    return {m.group(1): int(m.group(2), 16) for m in re.finditer(r"\((\w+) #x([0-9a-f]{8})\)", p.stdout)}


def run(programs, cvc5_crosscheck=True):
    """programs: list of {"name", "text"} -> list of result dicts."""
    t0 = time.time()
    exe = build()
    os.makedirs(os.path.join(WORK, "e4"), exist_ok=True)
    inp = os.path.join(WORK, "e4", "programs_%d.txt" % os.getpid())
    with open(inp, "w") as f:
        f.write("\n----\n".join(p["text"].rstrip("\n") for p in programs) + "\n")
    p = subprocess.run([exe, inp], stdout=subprocess.PIPE, stderr=subprocess.PIPE, text=True, timeout=600)
    outs = [json.loads(l) for l in p.stdout.strip().split("\n") if l.strip()]
    try:
        os.remove(inp)
    except OSError:
        pass
    results, items, meta = [], [], []
    for prog, o in zip(programs, outs):
        r = {"name": prog["name"], "text": prog["text"], "failed": [], "queries": 0, "claims": 0}
        results.append(r)
        if "error" in o:
            if o["error"] == "panic":
                r["verdict"], r["reason"] = "fail", "the pipeline panicked on this program"
                r["failed"].append({"check": "the analysis pipeline panicked on a catalogue program", "model": {}, "reproduced": True})
            else:
                r["verdict"], r["reason"] = "inconclusive", "pipeline: " + o["error"]
            continue
        nodes = o["nodes"]
        r["_nodes"] = nodes
        vcs, decls = vcs_for(nodes)
        decls = decls + ["(declare-const la_%s (_ BitVec 32))" % l for l in labels_of(nodes)]
        r["claims"] = sum(len([1 for _, v in n["rout"] if v["t"] != "Other"]) + len([1 for l, v in n["mout"] if l["t"] == "Stack" and v["t"] != "Other"]) for n in nodes)
        r["nodes"] = len(nodes)
        for what, idx, q in vcs:
            items.append((decls, q))
            meta.append((r, what, idx, nodes))
        r["queries"] = len(vcs)
    verdicts = solve(items) if items else []
    # diff two solvers: on families small enough, every verdict is cross-checked with cvc5
    if items and len(items) <= 12000 and cvc5_crosscheck:
        second = solve_cvc5(items)
        for i, (a, b) in enumerate(zip(verdicts, second)):
            if {a, b} == {"sat", "unsat"}:
                verdicts[i] = "disagree"
    for (r, what, idx, nodes), v, (decls, q) in zip(meta, verdicts, items):
        if v == "unsat":
            continue
        if v == "sat":
            r["failed"].append({"check": "[C01] claimed value is false in some execution: " + what, "node": idx, "_q": (decls, q)})
        else:
            r["inconclusive"] = "solver answered %s on: %s" % (v, what)
    # second chance with a solver-inferred auxiliary invariant about CSR contents
    for r in results:
        nodes = r.pop("_nodes", None)
        if "verdict" in r or not r["failed"] or nodes is None or r.get("inconclusive"):
            continue
        if not any(n["kind"] == "inst" and n["inst"] and n["inst"]["k"] in ("Csr", "CsrImm") for n in nodes):
            continue
        ldecls = ["(declare-const la_%s (_ BitVec 32))" % l for l in labels_of(nodes)]
        nodes, ghost, rounds, dropped = houdini(nodes, ldecls)
        r["aux_tags_not_inductive"] = dropped
        vcs, decls = vcs_for(nodes, ghost)
        its = [(decls + ldecls, q) for _, _, q in vcs]
        vs = solve(its)
        r["queries"] += len(vcs)
        r["houdini_rounds"] = rounds
        r["failed"] = []
        for (what, idx, q), v, (d, _) in zip(vcs, vs, its):
            if v == "unsat":
                continue
            if v == "sat":
                r["failed"].append({"check": "[C01] claimed value is false in some execution: " + what, "node": idx, "_q": (d, q)})
            else:
                r["inconclusive"] = "solver answered %s on: %s" % (v, what)
    for r in results:
        r.pop("_nodes", None)
        # a model for what is reported: the concrete machine state in which the claim is false
        for k, f in enumerate(r["failed"]):
            if "_q" in f:
                d, q = f.pop("_q")
                m = model_of(d, q) if k < 3 else {}
                f["model"] = {a: val for a, val in m.items() if val}
                f["reproduced"] = bool(m) if k < 3 else False
        if "verdict" in r:
            continue
        if r["failed"]:
            r["verdict"], r["reason"] = "fail", "%d false claim(s)" % len(r["failed"])
        elif r.get("inconclusive"):
            r["verdict"], r["reason"] = "inconclusive", r["inconclusive"]
        else:
            r["verdict"], r["reason"] = "pass", "%d claims on %d nodes: %d verification conditions unsat" % (r["claims"], r.get("nodes", 0), r["queries"])
    return results, time.time() - t0


if __name__ == "__main__":
    import e4_programs
    progs = e4_programs.catalogue() if len(sys.argv) < 2 else [{"name": os.path.basename(a), "text": open(a).read()} for a in sys.argv[1:]]
    res, dt = run(progs)
    bad = 0
    for r in res:
        if r["verdict"] != "pass":
            bad += 1
            print(r["name"], r["verdict"], r["reason"])
            for f in r["failed"][:3]:
                print("     ", f["check"][:200])
    print("%d programs, %d not passing, %d queries, %.1fs" % (len(res), bad, sum(r["queries"] for r in res), dt))
