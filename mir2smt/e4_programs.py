"""Program catalogue of engine E4: hand-written programs for the composition
patterns the value analysis has special code for, plus the EXHAUSTIVE set of
straight-line bodies of a given length over a small instruction alphabet."""
import itertools

EXIT = "    li a7, 10\n    ecall\n"


def wrap(body):
    return "main:\n" + "".join("    %s\n" % l for l in body) + EXIT


HAND = {
 "save_restore": ["addi sp, sp, -8", "sw s0, 4(sp)", "li s0, 7", "lw s0, 4(sp)", "addi sp, sp, 8"],
 "const_chain": ["li t0, 100", "addi t1, t0, -3", "slli t2, t1, 4", "sub t3, t2, t0", "xor t4, t3, t3"],
 "sp_arith": ["li t0, 16", "sub sp, sp, t0", "sw ra, 12(sp)", "lw ra, 12(sp)", "add sp, sp, t0"],
 "sub_reversed": ["li t0, 100", "sub t1, t0, sp", "sw t1, -4(sp)"],
 "stale_slot": ["addi sp, sp, -8", "sw t0, 4(sp)", "li t0, 7", "nop", "lw t1, 4(sp)", "addi sp, sp, 8"],
 "zero_to_const": ["addi sp, sp, -8", "sw x0, 4(sp)", "lw t0, 4(sp)", "add t0, t1, t2", "nop", "addi sp, sp, 8"],
 "zero_slot_overwrite": ["addi sp, sp, -8", "sw x0, 4(sp)", "nop", "sw t1, 4(sp)", "nop", "lw t2, 4(sp)", "addi sp, sp, 8"],
 "byte_store": ["addi sp, sp, -8", "li t0, 0x1234", "sb t0, 4(sp)", "lw t1, 4(sp)", "addi sp, sp, 8"],
 "byte_store_over_word": ["addi sp, sp, -8", "li t0, 0x1234", "sw t0, 4(sp)", "li t1, 1", "sb t1, 4(sp)", "lw t2, 4(sp)", "addi sp, sp, 8"],
 "byte_load": ["addi sp, sp, -8", "li t0, 0x1234", "sw t0, 4(sp)", "lb t1, 4(sp)", "addi sp, sp, 8"],
 "x0_write": ["li t1, 5", "addi x0, t1, 0", "add t2, x0, x0", "li t3, 10"],
 "div_zero": ["div t0, x0, x0", "divu t1, x0, x0", "rem t2, x0, x0"],
 "slti_zero": ["slti t0, zero, 1", "sltiu t1, zero, 5", "seqz t2, zero"],
 "ecall_result": ["li a0, 5", "li a7, 5", "ecall", "mv t0, a0"],
 "slot_twice": ["addi sp, sp, -8", "sw ra, 4(sp)", "sw a0, 4(sp)", "lw ra, 4(sp)", "addi sp, sp, 8"],

 "lui_addi": ["lui t0, 0x12345", "addi t0, t0, 0x678", "lui t1, 0xfffff"],
 "mulh_consts": ["li t0, -7", "li t1, 3", "mulh t2, t0, t1", "mulhu t3, t0, t1", "mulhsu t4, t0, t1", "div t5, t0, t1", "rem t6, t0, t1"],
 "shift_big": ["li t0, 1", "li t1, 33", "sll t2, t0, t1", "sra t3, t0, t1", "slli t4, t0, 31", "srai t5, t4, 31"],
}
HANDLER = "main:\n    la t0, handler\n    csrrw zero, utvec, t0\n" + EXIT + "handler:\n    csrrw a0, uscratch, a0\n%s    csrrw a0, uscratch, a0\n    uret\n"


def handler(body):
    return HANDLER % "".join("    %s\n" % l for l in body)


HAND_RAW = {
 # a loop whose head is the function's own label: the entry node is not passed again
 "loop_to_function_label": "main:\n    li a0, 3\n    jal ra, f\n" + EXIT + "f:\n    addi s0, s0, 1\n    addi a0, a0, -1\n    bnez a0, f\n    ret\n",
 # control-flow shapes: several returns, a loop nest, a branch to the next line, a backward jump over a call
 "three_returns": "main:\n    jal ra, f\n" + EXIT + "f:\n    beqz a0, r2\n    bnez a1, r3\n    ret\nr2:\n    li a0, 2\n    ret\nr3:\n    li a0, 3\n    ret\n",
 "loop_nest": "main:\n    li t0, 3\nouter:\n    li t1, 2\ninner:\n    addi t1, t1, -1\n    bnez t1, inner\n    addi t0, t0, -1\n    bnez t0, outer\n" + EXIT,
 "branch_to_next": "main:\n    beq t0, t1, next\nnext:\n    bne t0, t1, next\n    j end\n    nop\nend:\n" + EXIT,
 "back_over_call": "main:\n    li s0, 2\nagain:\n    jal ra, f\n    addi s0, s0, -1\n    bgtz s0, again\n" + EXIT + "f:\n    ret\n",
 # two call sites with different needs, and a callee that calls on
 "two_call_sites": "main:\n    li a0, 1\n    li a1, 2\n    jal ra, f\n    mv s0, a0\n    li a0, 3\n    li a1, 4\n    jal ra, f\n    add a0, s0, a1\n" + EXIT + "f:\n    add a0, a0, a1\n    li a1, 9\n    ret\n",
 "nested_calls": "main:\n    li a0, 1\n    li a3, 2\n    jal ra, f\n    mv t0, a0\n" + EXIT + "f:\n    addi sp, sp, -4\n    sw ra, 0(sp)\n    addi a0, a0, 1\n    jal ra, g\n    lw ra, 0(sp)\n    addi sp, sp, 4\n    ret\ng:\n    add a0, a0, a3\n    ret\n",
 # RARS interrupt handler idiom: swap a0 with uscratch to get the save area, spill, work, reload, swap back
 "handler_spill_reload": handler(["sw t0, 0(a0)", "sw t1, 4(a0)", "li t0, 5", "mv t1, t0", "lw t0, 0(a0)", "lw t1, 4(a0)"]),
 "handler_clobber": handler(["sw t0, 0(a0)", "sw t1, 0(a0)", "lw t0, 0(a0)"]),
 "handler_csr_read_back": handler(["sw t0, 0(a0)", "csrrw t1, uscratch, zero", "lw t0, 0(a0)", "csrrw zero, uscratch, t1"]),
 # KNOWN FINDING (see known_findings.json): a register read from a CSR whose recorded content was lost
 # after a modification is tagged "value in the CSR" like the pointer read on entry, so the reload
 # through it is claimed to restore t0
 "handler_tag_after_setbits": handler(["sw t0, 0(a0)", "csrrsi zero, uscratch, 1", "csrrw a0, uscratch, a0", "lw t0, 0(a0)", "csrrw a0, uscratch, a0"]),
 "handler_tag_after_overwrite": handler(["sw t0, 0(a0)", "lw t1, 8(a0)", "csrrw zero, uscratch, t1", "li t1, 0", "csrrw t2, uscratch, zero", "lw t0, 0(t2)"]),
 "branch_join": "main:\n    li t0, 1\n    beqz a0, other\n    li t1, 5\n    j join\nother:\n    li t1, 5\n    li t0, 2\njoin:\n    add t2, t1, t1\n" + EXIT,
 "branch_join_slot": "main:\n    addi sp, sp, -4\n    beqz a0, skip\n    sw s0, 0(sp)\nskip:\n    li s0, 7\n    lw s0, 0(sp)\n    addi sp, sp, 4\n" + EXIT,
 "loop_counter": "main:\n    li t0, 0\n    li t1, 10\nloop:\n    addi t0, t0, 1\n    blt t0, t1, loop\n    mv a0, t0\n" + EXIT,
 "loop_sp": "main:\n    addi sp, sp, -8\n    sw s0, 0(sp)\n    li s0, 3\nloop:\n    addi s0, s0, -1\n    bnez s0, loop\n    lw s0, 0(sp)\n    addi sp, sp, 8\n" + EXIT,
 "call_saved": "main:\n    li s0, 5\n    li t0, 6\n    jal ra, f\n    add a0, s0, t0\n" + EXIT + "f:\n    addi sp, sp, -4\n    sw s0, 0(sp)\n    li s0, 9\n    lw s0, 0(sp)\n    addi sp, sp, 4\n    ret\n",
 "call_all_temps": "main:\n    li t0, 1\n    li t1, 2\n    li t2, 3\n    li t3, 4\n    li t4, 5\n    li t5, 6\n    li t6, 7\n    li a0, 8\n    li a7, 9\n    li s11, 10\n    jal ra, f\n    add a1, t5, t6\n" + EXIT + "f:\n    li t5, 70\n    li t6, 77\n    li a0, 1\n    ret\n",
 "call_slot": "main:\n    addi sp, sp, -8\n    li t0, 3\n    sw t0, 4(sp)\n    jal ra, f\n    lw t1, 4(sp)\n    addi sp, sp, 8\n" + EXIT + "f:\n    li a0, 1\n    ret\n",
 "two_returns": "main:\n    jal ra, f\n" + EXIT + "f:\n    addi sp, sp, -4\n    sw ra, 0(sp)\n    beqz a0, early\n    lw ra, 0(sp)\n    addi sp, sp, 4\n    ret\nearly:\n    li a0, 1\n    lw ra, 0(sp)\n    addi sp, sp, 4\n    ret\n",
 "data_label": ".data\ndata: .word 1, 2\n.text\nmain:\n    la t0, data\n    lw t1, 4(t0)\n" + EXIT,
}

# Alphabet for the exhaustive straight-line bodies: one representative per transfer-function case
ALPHABET = [
    "li t0, 7",
    "addi t0, t0, 1",
    "add t0, t1, t2",
    "mv t1, t0",
    "addi sp, sp, -8",
    "addi sp, sp, 8",
    "sw t0, 4(sp)",
    "sw x0, 4(sp)",
    "sb t1, 4(sp)",
    "lw t0, 4(sp)",
    "lw t1, 4(sp)",
    "sub t1, t0, sp",
    "addi x0, t0, 0",
    "ecall",
]


def families(tier="quick"):
    """-> dict family name -> list of programs.  Every family is enumerated EXHAUSTIVELY."""
    fam = {"hand": [{"name": "hand_" + k, "text": wrap(v)} for k, v in HAND.items()] +
                   [{"name": "hand_" + k, "text": v} for k, v in HAND_RAW.items()]}
    A = ALPHABET
    n = 3 if tier == "quick" else 4
    for L in range(1, n + 1):
        fam["seq%d" % L] = [{"name": "seq_" + "_".join("%x" % i for i in c), "text": wrap([A[i] for i in c])}
                            for c in itertools.product(range(len(A)), repeat=L)]
    # a branch diamond: the two arms meet (in[n] = AND of the predecessors' outs)
    fam["diamond"] = [{"name": "dia_%x_%x_%x" % c,
                       "text": "main:\n    addi sp, sp, -8\n    beqz a0, other\n    %s\n    j join\nother:\n    %s\njoin:\n    %s\n    addi sp, sp, 8\n" % (A[c[0]], A[c[1]], A[c[2]]) + EXIT}
                      for c in itertools.product(range(len(A)), repeat=3)]
    # a skipped store: one predecessor of the join knows nothing about the slot
    fam["skip"] = [{"name": "skip_%x_%x" % c,
                    "text": "main:\n    addi sp, sp, -8\n    beqz a0, skip\n    %s\nskip:\n    %s\n    lw t1, 4(sp)\n    addi sp, sp, 8\n" % (A[c[0]], A[c[1]]) + EXIT}
                   for c in itertools.product(range(len(A)), repeat=2)]
    # a loop: facts at the head must survive the back edge
    fam["loop"] = [{"name": "loop_%x_%x_%x" % c,
                    "text": "main:\n    addi sp, sp, -8\n    %s\nhead:\n    %s\n    bnez t2, head\n    %s\n    addi sp, sp, 8\n" % (A[c[0]], A[c[1]], A[c[2]]) + EXIT}
                   for c in itertools.product(range(len(A)), repeat=3)]
    # a call between two instructions: caller-saved registers and ra die, the frame survives
    fam["call"] = [{"name": "call_%x_%x" % c,
                    "text": "main:\n    addi sp, sp, -8\n    %s\n    jal ra, f\n    %s\n    addi sp, sp, 8\n" % (A[c[0]], A[c[1]]) + EXIT +
                            "f:\n    addi sp, sp, -4\n    sw s0, 0(sp)\n    li s0, 1\n    lw s0, 0(sp)\n    addi sp, sp, 4\n    ret\n"}
                   for c in itertools.product(range(len(A)), repeat=2)]
    # function bodies: at a function entry the callee-saved registers are "original" values, so saving and
    # restoring them goes through the Orig-slot rewrites (rule_known_values_to_stack / rule_value_from_stack)
    F = FUNC_ALPHABET
    m = 3 if tier == "quick" else 4
    fam["func"] = [{"name": "func_" + "_".join("%x" % i for i in c),
                    "text": "main:\n    jal ra, f\n" + EXIT + "f:\n    addi sp, sp, -8\n" + "".join("    %s\n" % F[i] for i in c) + "    addi sp, sp, 8\n    ret\ng:\n    li a0, 1\n    ret\n"}
                   for L in range(1, m + 1) for c in itertools.product(range(len(F)), repeat=L)]
    # arithmetic bodies: constant folding and the x0-sourced generated facts through the whole pipeline
    B = ARITH_ALPHABET
    k = 3 if tier == "quick" else 4
    fam["arith"] = [{"name": "ari_" + "_".join("%x" % i for i in c),
                     "text": ".data\ndata: .word 1, 2\n.text\n" + wrap([B[i] for i in c])}
                    for c in itertools.product(range(len(B)), repeat=k)]
    # environment calls with a known service number (what the service reads and writes), and CSR instructions
    S = [1, 4, 5, 8, 9, 11, 12, 30, 34, 93, 10, 51, 52, 2]   # 51, 52, 2: constants the tool's table does not list
    PRE = ["li a0, 3", "li a1, 4", "mv a0, t0", "nop"]
    POST = ["mv t1, a0", "mv t1, a1", "add t1, a0, a1", "nop"]
    fam["ecall"] = [{"name": "ecall_%d_%x_%x" % (n, i, j),
                     "text": wrap([PRE[i], "li a7, %d" % n, "ecall", POST[j]])}
                    for n in S for i in range(len(PRE)) for j in range(len(POST))]
    fam["ecall"] += [{"name": "ecall_exit2_arm_%x" % i,
                      "text": "main:\n    %s\n    beqz t2, other\n    li a7, 93\n    ecall\nother:\n    li a0, 0\n" % PRE[i] + EXIT}
                     for i in range(len(PRE))]
    C = ["csrrw t1, uscratch, t0", "csrrs t2, uie, t0", "csrrc zero, uie, t0", "csrrs t1, ucause, zero", "csrrwi zero, ustatus, 1",
         "li t0, 16", "mv t3, t1", "sw t1, 4(sp)"]
    fam["csr"] = [{"name": "csr_%x_%x_%x" % c, "text": wrap([C[c[0]], C[c[1]], C[c[2]]])}
                  for c in itertools.product(range(len(C)), repeat=3)]
    # read-modify-write traffic on ONE csr: a tracked csr fact must not survive csrrs/csrrc/csrr?i on it,
    # nor an overwrite of the register it is described by
    C2 = ["csrrw t1, uscratch, t0", "csrrs t2, uscratch, t0", "csrrc zero, uscratch, t1", "csrrwi zero, uscratch, 1",
          "csrrsi t1, uscratch, 2", "csrrs t1, uscratch, zero", "li t0, 16", "mv t3, t1", "csrrw t0, uscratch, t0"]
    d = 3 if tier == "quick" else 4
    fam["csr2"] = [{"name": "csr2_" + "_".join("%x" % i for i in c), "text": wrap([C2[i] for i in c])}
                   for c in itertools.product(range(len(C2)), repeat=d)]
    # argument / return-value traffic across a call: (before, after) in the caller x every 2-instruction callee body
    P1 = ["li a0, 1", "li a2, 2", "li s1, 3", "nop", "li gp, 64"]
    P2 = ["mv t0, a0", "mv t0, a1", "add t0, a0, s1", "mv t0, a2", "nop", "add t0, a0, gp"]
    FB = ["mv a0, a2", "add a0, a0, a1", "li a0, 5", "mv t1, a3", "li a1, 7", "nop", "mv s1, a0"]
    fb = 2 if tier == "quick" else 3
    fam["callret"] = [{"name": "callret_%x_%x_" % c[:2] + "_".join("%x" % i for i in c[2:]),
                       "text": "main:\n    %s\n    jal ra, f\n    %s\n" % (P1[c[0]], P2[c[1]]) + EXIT + "f:\n" + "".join("    %s\n" % FB[i] for i in c[2:]) + "    ret\n"}
                      for c in itertools.product(range(len(P1)), range(len(P2)), *([range(len(FB))] * fb))]
    # control-flow shapes: three slots between three labels, each a branch / jump / call / exit / plain instruction
    CF = ["nop", "beqz t0, L1", "bnez t1, L2", "blt t0, t1, L3", "bgeu t1, t0, L1", "j L1", "j L2", "j L3", "jal ra, f",
          "li a7, 93\n    ecall", "li a7, 1\n    ecall", "li t0, 1"]
    fam["cfg"] = [{"name": "cfg_%x_%x_%x" % c,
                   "text": "main:\n    %s\nL1:\n    %s\nL2:\n    %s\nL3:\n" % (CF[c[0]], CF[c[1]], CF[c[2]]) + EXIT + "f:\n    beqz a0, early\n    li a0, 1\n    ret\nearly:\n    ret\n"}
                  for c in itertools.product(range(len(CF)), repeat=3)]
    # every branch mnemonic (incl. the pseudo forms) x every operand coincidence (two registers, x0 on either side, the
    # same register twice, x0 twice), forwards over one instruction and backwards: "always taken" / "never taken"
    # special cases in the graph builder must agree with the comparison for all register contents
    CONDS = ["beq", "bne", "blt", "bge", "bltu", "bgeu", "bgt", "ble", "bgtu", "bleu"]
    OPS = [("t0", "t1"), ("zero", "t1"), ("t0", "zero"), ("t0", "t0"), ("zero", "zero")]
    PSEUDO = ["beqz t0", "bnez t0", "bltz t0", "bgez t0", "bgtz t0", "blez t0", "beqz zero", "bnez zero"]
    brs = ["%s %s, %s" % (c, a, b) for c in CONDS for a, b in OPS] + PSEUDO
    fam["br0"] = [{"name": "br0_f_%d" % i, "text": "main:\n    li t2, 0\n    %s, over\n    li t2, 1\nover:\n    mv a0, t2\n" % b + EXIT}
                  for i, b in enumerate(brs)] + \
                 [{"name": "br0_b_%d" % i, "text": "main:\n    li t2, 0\nback:\n    addi t2, t2, 1\n    %s, back\n    mv a0, t2\n" % b + EXIT}
                  for i, b in enumerate(brs)]
    # extreme immediates and stack positions: the offset arithmetic of the value analysis and of the stack lints at the
    # edges of i32 (no panic anywhere in the pipeline, and the claims still true)
    X = ["addi sp, sp, 2047", "addi sp, sp, -2048", "lw t1, 2047(sp)", "sw t1, -2048(sp)", "li t0, 2147483647", "li t0, -2147483648",
         "add sp, sp, t0", "sub sp, sp, t0", "addi t0, t0, -1", "sw s0, 2147483647(sp)", "lw s0, -2147483648(sp)", "slli t0, t0, 31"]
    fam["extreme"] = [{"name": "ext_%x_%x_%x" % c, "text": wrap([X[c[0]], X[c[1]], X[c[2]]])}
                      for c in itertools.product(range(len(X)), repeat=3)]
    # a conditional inside a loop: facts must survive the join inside the body AND the back edge
    N = ["sw s0, 4(sp)", "li s0, 7", "lw s0, 4(sp)", "addi sp, sp, -4", "addi sp, sp, 4", "sw t0, 0(sp)", "mv t0, s0"]
    nd = 4 if tier == "quick" else 5
    fam["nest"] = [{"name": "nest_" + "_".join("%x" % i for i in c),
                    "text": "main:\n    addi sp, sp, -8\n    %s\nhead:\n    %s\n    beqz a0, skip\n    %s\nskip:\n    %s\n    bnez t2, head\n%s    addi sp, sp, 8\n" %
                            (N[c[0]], N[c[1]], N[c[2]], N[c[3]], ("    %s\n" % N[c[4]]) if nd == 5 else "") + EXIT}
                   for c in itertools.product(range(len(N)), repeat=nd)]
    # interrupt handlers: every 3-instruction body between the two uscratch swaps; a store is only
    # generated while a0 holds the save-area pointer (a store through the interrupted program's a0
    # could alias the save area: the analysis assumes tracked memory is reached only through its base)
    HB = ["sw t0, 0(a0)", "lw t0, 0(a0)", "sw t1, 4(a0)", "lw t1, 4(a0)", "li t0, 5", "mv t1, t0", "csrrw t2, uscratch, zero",
          "csrrw a0, uscratch, a0", "lw t1, 0(a0)", "sw zero, 0(a0)", "sb t1, 0(a0)"]

    def stores_only_through_save_area(c):
        swapped = False
        for i in c:
            if HB[i].startswith("csrrw a0"):
                swapped = not swapped
            elif HB[i].startswith("sw") and swapped:
                return False
        return True
    fam["handler"] = [{"name": "handler_" + "_".join("%x" % i for i in c), "text": handler([HB[i] for i in c])}
                      for c in itertools.product(range(len(HB)), repeat=d) if stores_only_through_save_area(c)]
    # the two alphabets interleaved
    fam["mix"] = [{"name": "mix_%x_%x_%x" % c, "text": ".data\ndata: .word 1, 2\n.text\n" + wrap([A[c[0]], B[c[1]], A[c[2]]])}
                  for c in itertools.product(range(len(A)), range(len(B)), range(len(A)))]
    # a function that keeps a frame pointer: sp is recovered from another register
    P = A + ["addi sp, sp, -4", "mv sp, s1", "sw s1, 8(sp)", "lw s1, 0(sp)"]
    fam["fp"] = [{"name": "fp_%x_%x" % c,
                  "text": "main:\n    jal ra, f\n" + EXIT + "f:\n    addi sp, sp, -16\n    sw s1, 0(sp)\n    mv s1, sp\n    %s\n    %s\n"
                          "    mv sp, s1\n    lw s1, 0(sp)\n    addi sp, sp, 16\n    ret\n" % (P[c[0]], P[c[1]])}
                 for c in itertools.product(range(len(P)), repeat=2)]
    return fam


ARITH_ALPHABET = [
    "li t0, -7",
    "li t1, 3",
    "lui t0, 0xfffff",
    "mul t2, t0, t1",
    "mulhu t2, t0, t1",
    "div t2, t0, t1",
    "rem t2, t1, t0",
    "div t1, t0, x0",
    "sll t2, t1, t0",
    "srai t0, t0, 31",
    "sltiu t1, x0, 1",
    "sub t0, x0, t1",
    "la t1, data",
    "lw t0, 4(t1)",
]

FUNC_ALPHABET = [
    "sw s0, 4(sp)",
    "sw ra, 0(sp)",
    "li s0, 1",
    "mv t0, s0",
    "lw s0, 4(sp)",
    "lw ra, 0(sp)",
    "lw t0, 4(sp)",
    "sw t0, 4(sp)",
    "addi s0, s0, 1",
    "jal ra, g\n    nop",
]


def catalogue(length=3, tier="quick"):
    progs = [{"name": "hand_" + k, "text": wrap(v)} for k, v in HAND.items()]
    progs += [{"name": "hand_" + k, "text": v} for k, v in HAND_RAW.items()]
    n = length if tier == "quick" else length + 1
    alphabet = ALPHABET if tier != "quick" else ALPHABET
    for L in range(1, n + 1):
        for combo in itertools.product(range(len(alphabet)), repeat=L):
            if L == n and tier != "quick" and len(set(combo)) < 2:
                pass
            body = [alphabet[i] for i in combo]
            progs.append({"name": "seq_" + "_".join("%x" % i for i in combo), "text": wrap(body)})
    return progs
