#!/usr/bin/env python3
"""Engine E3: decoding and pseudo-expansion (C08.b/c).

Native half: the catalogue text is lexed and parsed by the REAL code (binary
`decode`, rebuilt from /repo's working tree on every run) and the node(s) are
read back through their public fields.  Solver half: for each text, z3 and
cvc5 decide whether the node(s) have the same effect as the manual's meaning of
the text for ALL register contents, pc and loaded memory words (bit-vector
variables): result value, branch decision, jump target, effective address,
stored value, CSR operand.  A model is replayed in Python before it is reported.
"""
import json
import os
import re
import subprocess
import sys
import time

HERE = os.path.dirname(os.path.abspath(__file__))
ROOT = os.path.dirname(HERE)
WORK = os.path.join(ROOT, ".work")
sys.path.insert(0, HERE)
import e2  # noqa: E402

M32 = (1 << 32) - 1


def bv32(v):
    return "#x%08x" % (v & M32)


def reg_term(state, r):
    return "#x00000000" if r == 0 else state[r]


def const_term(v):
    return "LA" if v == "LA_ADDR" else bv32(v)


def writes(i):
    return i.get("rd") if i["k"] in ("Alu", "AluImm", "Const", "Jal", "Jalr", "Load", "Csr", "CsrImm") else None


def effect_terms(i, st):
    """component name -> SMT term (absent = the instruction has no such effect)."""
    k = i["k"]
    e = {}
    if k == "Alu":
        e["rd_value"] = e2.ref_term(i["op"].lower(), reg_term(st, i["rs1"]), reg_term(st, i["rs2"]))
    elif k == "AluImm":
        e["rd_value"] = e2.ref_term(i["op"].lower(), reg_term(st, i["rs1"]), bv32(i["imm"]))
    elif k == "Const":
        e["rd_value"] = const_term(i["value"])
    elif k == "Jal":
        e["rd_value"] = "(bvadd pc #x00000004)"
        e["taken"] = "true"
    elif k == "Jalr":
        e["rd_value"] = "(bvadd pc #x00000004)"
        e["taken"] = "true"
        e["target"] = "(bvand (bvadd %s %s) #xfffffffe)" % (reg_term(st, i["rs1"]), bv32(i["imm"]))
    elif k == "Branch":
        a, b = reg_term(st, i["rs1"]), reg_term(st, i["rs2"])
        e["taken"] = {"Eq": "(= %s %s)", "Ne": "(distinct %s %s)", "Lt": "(bvslt %s %s)", "Ge": "(bvsge %s %s)",
                      "Ltu": "(bvult %s %s)", "Geu": "(bvuge %s %s)"}[i["cond"]] % (a, b)
    elif k == "Load":
        e["addr"] = "(bvadd %s %s)" % (reg_term(st, i["rs1"]), bv32(i["imm"]))
    elif k == "Store":
        e["addr"] = "(bvadd %s %s)" % (reg_term(st, i["rs1"]), bv32(i["imm"]))
        mask = {"B": "#x000000ff", "H": "#x0000ffff", "W": "#xffffffff"}[i["width"]]
        e["store_value"] = "(bvand %s %s)" % (reg_term(st, i["rs2"]), mask)
    elif k == "Csr":
        e["csr_operand"] = reg_term(st, i["rs1"])
    elif k == "CsrImm":
        e["csr_operand"] = bv32(i["uimm"])
    return e


def static_key(i):
    k = i["k"]
    if k == "Load":
        return ("Load", i["width"], i["signed"])
    if k == "Store":
        return ("Store", i["width"])
    if k in ("Csr", "CsrImm"):
        return (k, i["op"], i["csr"])
    if k == "System":
        return ("System",)
    return ("reg",)


def py_eval(term, env):
    """Tiny evaluator for the SMT terms built above (replay of a model)."""
    toks = re.findall(r"\(|\)|[^\s()]+", term)
    pos = [0]

    def s32(u):
        return u - (1 << 32) if u >> 31 else u

    def parse():
        t = toks[pos[0]]
        pos[0] += 1
        if t != "(":
            if t.startswith("#x"):
                return int(t[2:], 16)
            if t in ("true", "false"):
                return t == "true"
            return env[t]
        head = toks[pos[0]]
        pos[0] += 1
        if head == "(":  # ((_ extract a b) x) / ((_ sign_extend n) x)
            assert toks[pos[0]] == "_"
            kind = toks[pos[0] + 1]
            a = int(toks[pos[0] + 2])
            if kind == "extract":
                b = int(toks[pos[0] + 3])
                pos[0] += 5
                x = parse()
                pos[0] += 1
                return ("w", (x[1] >> b) & ((1 << (a - b + 1)) - 1)) if isinstance(x, tuple) else (x >> b) & ((1 << (a - b + 1)) - 1)
            pos[0] += 4
            x = parse()
            pos[0] += 1
            if kind == "sign_extend":
                return ("w", s32(x) % (1 << 64))
            return ("w", x)
        args = []
        while toks[pos[0]] != ")":
            args.append(parse())
        pos[0] += 1
        w64 = any(isinstance(a, tuple) for a in args)
        vals = [a[1] if isinstance(a, tuple) else a for a in args]
        mod = (1 << 64) if w64 else (1 << 32)

        def sg(u):
            return u - mod if u >> ((64 if w64 else 32) - 1) else u
        wrap = (lambda v: ("w", v % mod)) if w64 else (lambda v: v % mod)
        if head == "bvadd":
            return wrap(vals[0] + vals[1])
        if head == "bvsub":
            return wrap(vals[0] - vals[1])
        if head == "bvmul":
            return wrap(vals[0] * vals[1])
        if head == "bvand":
            return wrap(vals[0] & vals[1])
        if head == "bvor":
            return wrap(vals[0] | vals[1])
        if head == "bvxor":
            return wrap(vals[0] ^ vals[1])
        if head == "bvshl":
            return wrap(vals[0] << vals[1] if vals[1] < 64 else 0)
        if head == "bvlshr":
            return wrap(vals[0] >> vals[1] if vals[1] < 64 else 0)
        if head == "bvashr":
            return wrap(sg(vals[0]) >> min(vals[1], 63))
        if head == "bvudiv":
            return wrap(vals[0] // vals[1] if vals[1] else mod - 1)
        if head == "bvurem":
            return wrap(vals[0] % vals[1] if vals[1] else vals[0])
        if head in ("bvsdiv", "bvsrem"):
            a, b = sg(vals[0]), sg(vals[1])
            if b == 0:
                return wrap((mod - 1 if a >= 0 else 1) if head == "bvsdiv" else a)
            q = abs(a) // abs(b)
            q = q if (a < 0) == (b < 0) else -q
            return wrap(q if head == "bvsdiv" else a - b * q)
        if head == "bvslt":
            return sg(vals[0]) < sg(vals[1])
        if head == "bvsge":
            return sg(vals[0]) >= sg(vals[1])
        if head == "bvult":
            return vals[0] < vals[1]
        if head == "bvuge":
            return vals[0] >= vals[1]
        if head == "=":
            return vals[0] == vals[1]
        if head == "distinct":
            return vals[0] != vals[1]
        if head == "and":
            return all(vals)
        if head == "or":
            return any(vals)
        if head == "not":
            return not vals[0]
        if head == "ite":
            return args[1] if vals[0] else args[2]
        raise ValueError("py_eval: " + head)
    v = parse()
    return v[1] if isinstance(v, tuple) else v


def build_decode():
    env = dict(os.environ, CARGO_NET_OFFLINE="true", RUSTFLAGS="--cfg rva_verif")
    p = subprocess.run(["cargo", "build", "--bin", "decode", "--target-dir", os.path.join(WORK, "native")],
                       cwd=os.path.join(ROOT, "kani"), env=env, stdout=subprocess.PIPE, stderr=subprocess.STDOUT, text=True)
    if p.returncode != 0:
        raise RuntimeError("decode build failed:\n" + p.stdout[-2000:])
    return os.path.join(WORK, "native", "debug", "decode")


DECLS = ["(declare-const pc (_ BitVec 32))", "(declare-const LA (_ BitVec 32))"] + \
        ["(declare-const r%d (_ BitVec 32))" % i for i in range(1, 32)] + \
        ["(declare-const ld%d (_ BitVec 32))" % i for i in range(2)]
VARS = ["pc", "LA"] + ["r%d" % i for i in range(1, 32)] + ["ld0", "ld1"]


def solve(queries, solver):
    lines = ["(set-logic QF_BV)", "(set-option :produce-models true)"] + DECLS
    for i, q in enumerate(queries):
        lines += ["(push 1)", '(echo "Q%d")' % i, "(assert %s)" % q, "(check-sat)", "(pop 1)"]
    cmd = ["/usr/bin/z3", "-in", "-t:60000"] if solver == "z3" else ["cvc5", "--incremental", "--lang", "smt2", "--tlimit-per=60000"]
    t0 = time.time()
    p = subprocess.run(cmd, input="\n".join(lines) + "\n", stdout=subprocess.PIPE, stderr=subprocess.STDOUT, text=True, timeout=3600)
    chunks = re.split(r'^"?Q(\d+)"?$', p.stdout, flags=re.M)
    res = {}
    for k in range(1, len(chunks), 2):
        c = chunks[k + 1]
        words = [w.strip() for w in c.strip().split("\n") if w.strip() in ("sat", "unsat", "unknown")]
        st = words[-1] if words else "?"
        res[int(chunks[k])] = "error" if "(error" in c else (st if st in ("sat", "unsat") else "unknown")
    if "(error" in chunks[0]:
        res = {}
    return [res.get(i, "error") for i in range(len(queries))], time.time() - t0


def model_for(query):
    lines = ["(set-logic QF_BV)", "(set-option :produce-models true)"] + DECLS + ["(assert %s)" % query, "(check-sat)",
                                                                                 "(get-value (%s))" % " ".join(VARS)]
    p = subprocess.run(["/usr/bin/z3", "-in", "-t:60000"], input="\n".join(lines) + "\n", stdout=subprocess.PIPE,
                       stderr=subprocess.STDOUT, text=True, timeout=120)
    return {m.group(1): int(m.group(2), 16) for m in re.finditer(r"\((\w+) #x([0-9a-f]{8})\)", p.stdout)}


def run(cases):
    """cases: entries of text_cases.json.  -> list of result dicts."""
    t0 = time.time()
    exe = build_decode()
    os.makedirs(os.path.join(WORK, "e3"), exist_ok=True)
    inp = os.path.join(WORK, "e3", "texts.txt")
    with open(inp, "w") as f:
        for c in cases:
            f.write(c["text"] + "\n")
    p = subprocess.run([exe, inp], stdout=subprocess.PIPE, stderr=subprocess.PIPE, text=True, timeout=300)
    outs = [json.loads(l) for l in p.stdout.strip().split("\n") if l.strip()]
    results, queries, qmeta = [], [], []
    for c, o in zip(cases, outs):
        r = {"name": "e3_" + c["name"], "text": c["text"], "expected": c["expected"], "decoded": o, "failed": [],
             "function": "ParserNode::try_from + Lexer::next"}
        results.append(r)

        def fail(msg, **kw):
            r["failed"].append(dict(check=msg, **kw))
        if "error" in o:
            fail("[C08] operand form of the catalogue was %s by the parser" % ("rejected" if o["error"] == "rejected" else "answered with a panic"))
            continue
        nodes = o["nodes"]
        if o["unconsumed_tokens"]:
            fail("[C08] the parser left operands of the statement unread")
        if len(nodes) != len(c["expected"]):
            fail("[C08] text expands to a different number of instructions")
            continue
        if c["label"] is not None and o["labels"] != [c["label"]]:
            fail("[C08] target label differs from the text")
        st = {i: "r%d" % i for i in range(1, 32)}
        disj = []
        for idx, (got, exp) in enumerate(zip(nodes, c["expected"])):
            if got["k"] == "NoMeaning":
                fail("[C08] parsed node has no RV32IM meaning")
                break
            if static_key(got) != static_key(exp):
                fail("[C08] instruction class / width / CSR differs from the manual's meaning of the text")
            if writes(got) != writes(exp):
                fail("[C08] destination register differs from the manual's meaning of the text")
            eg, ee = effect_terms(got, st), effect_terms(exp, st)
            if set(eg) != set(ee):
                fail("[C08] kind of effect differs from the manual's meaning of the text")
            for k in set(eg) & set(ee):
                if eg[k] != ee[k]:
                    disj.append("(distinct %s %s)" % (eg[k], ee[k]))
            # advance by the expected instruction
            rd = writes(exp)
            if rd:
                st = dict(st)
                st[rd] = ("ld%d" % idx) if exp["k"] == "Load" else ee.get("rd_value", "ld%d" % idx)
        if disj:
            queries.append("(or false %s)" % " ".join(disj))
            qmeta.append(r)
        r["smt_query"] = bool(disj)
    solver_s = {}
    if queries:
        verdicts = {}
        for sname in ("z3", "cvc5"):
            verdicts[sname], solver_s[sname] = solve(queries, sname)
        for i, r in enumerate(qmeta):
            a, b = verdicts["z3"][i], verdicts["cvc5"][i]
            if a == "unsat" and b == "unsat":
                continue
            if "sat" in (a, b) and "unsat" not in (a, b):
                m = model_for(queries[i])
                ok = bool(m) and py_eval(queries[i], m) is True
                r["failed"].append({"check": "[C08,C13] effect differs from the manual's meaning of the text for some register contents",
                                    "model": {k: v for k, v in m.items() if v}, "reproduced": ok})
            else:
                r["inconclusive"] = "solvers answered %s / %s" % (a, b)
    for r in results:
        if r["failed"]:
            r["verdict"] = "fail"
        elif r.get("inconclusive"):
            r["verdict"] = "inconclusive"
        else:
            r["verdict"] = "pass"
        r["solver_s"] = solver_s
    return results, time.time() - t0


if __name__ == "__main__":
    cases = json.load(open(os.path.join(ROOT, "kani", "catalogue", "text_cases.json")))
    res, dt = run(cases)
    for r in res:
        if r["verdict"] != "pass":
            print(r["name"], r["verdict"], r["text"], r["failed"], r.get("inconclusive", ""))
    print("%d cases, %d pass, %d with an SMT query, %.1fs" % (len(res), len([r for r in res if r["verdict"] == "pass"]),
                                                              len([r for r in res if r.get("smt_query")]), dt))
