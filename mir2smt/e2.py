#!/usr/bin/env python3
"""Engine E2 driver: decide, for every folded mnemonic and both build profiles,
  (1) MathOp::operate never panics, (2) its result is the RV32IM result,
for ALL operand pairs, by translating the function's MIR (regenerated from
/repo's working tree on every run) to SMT-LIB and asking z3 and cvc5.
A model is replayed against the native function before it is reported."""
import json
import os
import re
import shutil
import subprocess
import sys
import time

HERE = os.path.dirname(os.path.abspath(__file__))
ROOT = os.path.dirname(HERE)
WORK = os.path.join(ROOT, ".work")
sys.path.insert(0, HERE)
import mir2smt  # noqa: E402
from mir2smt import Val, bv  # noqa: E402

Z3 = "/usr/bin/z3"
CVC5 = "cvc5"
QUERY_MS = 60000

MNEMONIC_OP = {"add": "add", "addi": "add", "sub": "sub", "and": "and", "andi": "and", "or": "or", "ori": "or",
               "xor": "xor", "xori": "xor", "sll": "sll", "slli": "sll", "srl": "srl", "srli": "srl", "sra": "sra",
               "srai": "sra", "slt": "slt", "slti": "slt", "sltu": "sltu", "sltiu": "sltu", "mul": "mul",
               "mulh": "mulh", "mulhsu": "mulhsu", "mulhu": "mulhu", "div": "div", "divu": "divu", "rem": "rem",
               "remu": "remu"}


def ref_term(op, x="x", y="y"):
    """RV32IM semantics (ISA manual vol. I ch. 2 and 7) as an SMT-LIB term over 32-bit x, y."""
    sh = "(bvand %s #x0000001f)" % y
    b1, b0 = "#x00000001", "#x00000000"
    hi = lambda p: "((_ extract 63 32) %s)" % p  # noqa: E731
    sx = lambda t: "((_ sign_extend 32) %s)" % t  # noqa: E731
    zx = lambda t: "((_ zero_extend 32) %s)" % t  # noqa: E731
    minv, m1 = "#x80000000", "#xffffffff"
    return {
        "add": "(bvadd %s %s)" % (x, y), "sub": "(bvsub %s %s)" % (x, y), "and": "(bvand %s %s)" % (x, y),
        "or": "(bvor %s %s)" % (x, y), "xor": "(bvxor %s %s)" % (x, y),
        "sll": "(bvshl %s %s)" % (x, sh), "srl": "(bvlshr %s %s)" % (x, sh), "sra": "(bvashr %s %s)" % (x, sh),
        "slt": "(ite (bvslt %s %s) %s %s)" % (x, y, b1, b0), "sltu": "(ite (bvult %s %s) %s %s)" % (x, y, b1, b0),
        "mul": "(bvmul %s %s)" % (x, y),
        "mulh": hi("(bvmul %s %s)" % (sx(x), sx(y))), "mulhsu": hi("(bvmul %s %s)" % (sx(x), zx(y))),
        "mulhu": hi("(bvmul %s %s)" % (zx(x), zx(y))),
        "div": "(ite (= %s %s) %s (ite (and (= %s %s) (= %s %s)) %s (bvsdiv %s %s)))" % (y, b0, m1, x, minv, y, m1, minv, x, y),
        "divu": "(ite (= %s %s) %s (bvudiv %s %s))" % (y, b0, m1, x, y),
        "rem": "(ite (= %s %s) %s (ite (and (= %s %s) (= %s %s)) %s (bvsrem %s %s)))" % (y, b0, x, x, minv, y, m1, b0, x, y),
        "remu": "(ite (= %s %s) %s (bvurem %s %s))" % (y, b0, x, x, y),
    }[op]


def py_ref(op, x, y):
    """The same semantics on Python integers (for replay)."""
    M = 1 << 32
    ux, uy = x % M, y % M
    sx = ux - M if ux >> 31 else ux
    sy = uy - M if uy >> 31 else uy
    def tdiv(a, b):
        q = abs(a) // abs(b)
        return q if (a < 0) == (b < 0) else -q
    r = {
        "add": ux + uy, "sub": ux - uy, "and": ux & uy, "or": ux | uy, "xor": ux ^ uy,
        "sll": ux << (uy & 31), "srl": ux >> (uy & 31), "sra": sx >> (uy & 31),
        "slt": int(sx < sy), "sltu": int(ux < uy), "mul": ux * uy,
        "mulh": (sx * sy) >> 32, "mulhsu": (sx * uy) >> 32, "mulhu": (ux * uy) >> 32,
        "div": -1 if uy == 0 else (sx if (sx == -(1 << 31) and sy == -1) else tdiv(sx, sy)),
        "divu": M - 1 if uy == 0 else ux // uy,
        "rem": sx if uy == 0 else (0 if (sx == -(1 << 31) and sy == -1) else sx - sy * tdiv(sx, sy)),
        "remu": ux if uy == 0 else ux % uy,
    }[op] % M
    return r - M if r >> 31 else r


def dump_mir(profile):
    """MIR of riscv_analysis with overflow checks on ('dev') or off ('release')."""
    tdir = os.path.join(WORK, "mir_" + profile)
    fp = os.path.join(tdir, "debug", ".fingerprint")
    if os.path.isdir(fp):
        for d in os.listdir(fp):
            if d.startswith("riscv_analysis-"):
                shutil.rmtree(os.path.join(fp, d), ignore_errors=True)
    env = dict(os.environ, CARGO_NET_OFFLINE="true")
    env.pop("RUSTFLAGS", None)
    cmd = ["cargo", "+nightly", "rustc", "--offline", "-p", "riscv_analysis", "--lib", "--target-dir", tdir, "--",
           "-Zunpretty=mir", "-C", "debug-assertions=off", "-C", "overflow-checks=" + ("on" if profile == "dev" else "off")]
    p = subprocess.run(cmd, cwd="/repo", env=env, stdout=subprocess.PIPE, stderr=subprocess.PIPE, text=True)
    if p.returncode != 0 or "fn " not in p.stdout:
        raise RuntimeError("MIR dump failed: " + p.stderr[-1500:])
    return p.stdout


def variant_order():
    src = open("/repo/riscv_analysis/src/cfg/ops.rs").read()
    m = re.search(r"pub enum MathOp \{(.*?)\}", src, re.S)
    return [v.strip() for v in m.group(1).split(",") if v.strip()]


def native(args, profile):
    exe = os.path.join(WORK, "native", "release" if profile == "release" else "debug", "e2native")
    p = subprocess.run([exe] + [str(a) for a in args], stdout=subprocess.PIPE, stderr=subprocess.DEVNULL, text=True, timeout=60)
    return p.stdout.strip()


def build_native():
    env = dict(os.environ, CARGO_NET_OFFLINE="true", RUSTFLAGS="--cfg rva_verif")
    src = os.path.join(ROOT, "kani")
    for extra in ([], ["--release"]):
        p = subprocess.run(["cargo", "build", "--bin", "e2native", "--target-dir", os.path.join(WORK, "native")] + extra,
                           cwd=src, env=env, stdout=subprocess.PIPE, stderr=subprocess.STDOUT, text=True)
        if p.returncode != 0:
            raise RuntimeError("native helper build failed:\n" + p.stdout[-1500:])


class Solver:
    def __init__(self, name):
        self.name = name

    def _script(self, queries, models):
        lines = ["(set-logic ALL)" if self.name == "z3" else "(set-logic QF_BV)", "(set-option :produce-models true)",
                 "(declare-const x (_ BitVec 32))", "(declare-const y (_ BitVec 32))"]
        for i, q in enumerate(queries):
            if q is None:
                continue
            lines.append("(push 1)")
            lines.append('(echo "Q%d")' % i)   # first, so that an (error ...) line lands in this query's chunk
            for a in q:
                lines.append("(assert %s)" % a)
            lines.append("(check-sat)")
            if models:
                lines.append("(get-value (x y))")
            lines.append("(pop 1)")
        return "\n".join(lines) + "\n"

    def _exec(self, script, n):
        if self.name == "z3":
            cmd = [Z3, "-in", "-t:%d" % QUERY_MS]
        else:
            cmd = [CVC5, "--incremental", "--lang", "smt2", "--tlimit-per=%d" % QUERY_MS]
        p = subprocess.run(cmd, input=script, stdout=subprocess.PIPE, stderr=subprocess.STDOUT, text=True,
                           timeout=QUERY_MS / 1000 * max(1, n) + 60)
        out = p.stdout
        chunks = re.split(r'^"?Q(\d+)"?$', out, flags=re.M)
        got = {}
        for k in range(1, len(chunks), 2):
            got[int(chunks[k])] = chunks[k + 1]
        return got, ("(error" in chunks[0])

    def run(self, queries, want_models):
        """queries: list of assertion-lists.  Returns list of (status, model) per query.
        Any '(error' line makes the affected query 'error' (inconclusive), never a pass."""
        t0 = time.time()
        got, pre_err = self._exec(self._script(queries, False), len(queries))
        res = []
        for i in range(len(queries)):
            c = got.get(i, "")
            if pre_err or "(error" in c or i not in got:
                res.append(["error", None])
                continue
            words = [w.strip() for w in c.strip().split("\n") if w.strip() in ("sat", "unsat", "unknown")]
            st = words[-1] if words else "?"
            res.append([st if st in ("sat", "unsat") else "unknown", None])
        need = [q if (res[i][0] == "sat" and want_models and want_models[i]) else None for i, q in enumerate(queries)]
        if any(q is not None for q in need):
            got2, _ = self._exec(self._script(need, True), len([q for q in need if q]))
            for i, c in got2.items():
                m = re.search(r"\(\(x #x([0-9a-f]{8})\)\s*\(y #x([0-9a-f]{8})\)\)", c.replace("\n", " "))
                if m:
                    res[i][1] = (int(m.group(1), 16), int(m.group(2), 16))
        return [tuple(r) for r in res], time.time() - t0


def s32(u):
    return u - (1 << 32) if u >> 31 else u


VECTORS = [(0, 0), (1, 1), (-1, 1), (1, -1), (-1, -1), (0x7fffffff, 1), (-0x80000000, -1), (-0x80000000, 1),
           (0x7fffffff, 0x7fffffff), (-0x80000000, -0x80000000), (12345678, 0), (5, 32), (5, 33), (-5, 31), (-5, 63),
           (0x1234, 0x5678), (-0x1234, 0x5678), (0x40000000, 2), (0x10000, 0x10000), (-7, 2), (7, -2), (-7, -2), (0x7fffffff, -1),
           (-1412628735, 0x12345678)]


def run(mnemonics, profiles=("dev", "release")):
    """-> list of result dicts, one per (mnemonic, profile)."""
    t_start = time.time()
    build_native()
    order = variant_order()
    mapping = {}
    for l in native(["map"], "dev").splitlines():
        _, m, v = l.split()
        mapping[m] = v
    results = []
    for profile in profiles:
        try:
            mir = dump_mir(profile)
            text = mir2smt.parse_function(mir, r"::operate\(_1: &(?:[\w:]+::)?MathOp")
            fn = mir2smt.Function(text)
        except (mir2smt.Unsupported, RuntimeError) as e:
            for m in mnemonics:
                results.append({"name": "e2_fold_%s_%s" % (m, profile), "verdict": "inconclusive", "reason": "E2 not applicable to this source: %s" % e})
            continue
        for m in mnemonics:
            r = {"name": "e2_fold_%s_%s" % (m, profile), "mnemonic": m, "profile": profile, "failed": [], "queries": 0,
                 "solver_s": {}, "function": "riscv_analysis::cfg::MathOp::operate"}
            results.append(r)
            var = mapping.get(m)
            if var not in order:
                r.update(verdict="fail", reason="mnemonic has no folding operator")
                r["failed"].append({"check": "[C08,C01] fold: mnemonic has no folding operator", "values": None, "native": None})
                continue
            try:
                disc = Val("int", "isize", term=bv(order.index(var), 64))
                ex = mir2smt.Executor(fn, {"_1": Val("ref", "&MathOp", payload=disc), "_2": mir2smt.int_val("i32", "x"),
                                           "_3": mir2smt.int_val("i32", "y")}, profile == "dev")
                ex.run()
            except mir2smt.Unsupported as e:
                r.update(verdict="inconclusive", reason="E2 not applicable to this source: %s" % e)
                continue
            queries, kinds = [], []
            for p in ex.paths:
                if p.outcome == "panic":
                    queries.append(list(p.conds))
                    kinds.append(("panic", p.msg))
                elif p.outcome == "return":
                    if p.value is None or p.value.kind != "int":
                        r.update(verdict="inconclusive", reason="E2: return value of unsupported kind")
                        break
                    queries.append(list(p.conds) + ["(distinct %s %s)" % (p.value.term, ref_term(MNEMONIC_OP[m]))])
                    kinds.append(("value", None))
            if "verdict" in r:
                continue
            # translator validation: the repository's own unit-test vectors and boundary pairs
            vq, vexp = [], []
            for (vx, vy) in VECTORS:
                nat = native(["eval", m, vx, vy], profile)
                fix = ["(= x %s)" % bv(vx, 32), "(= y %s)" % bv(vy, 32)]
                if nat == "PANIC":
                    vq.append(fix + ["(or false %s)" % " ".join("(and true %s)" % " ".join(p.conds) for p in ex.paths if p.outcome == "panic")]
                              if any(p.outcome == "panic" for p in ex.paths) else fix + ["false"])
                    vexp.append("sat")
                else:
                    ok = ["(and true %s (= %s %s))" % (" ".join(p.conds), p.value.term, bv(int(nat), 32)) for p in ex.paths if p.outcome == "return"]
                    vq.append(fix + ["(or false %s)" % " ".join(ok)])
                    vexp.append("sat")
            allq = queries + vq
            want = [True] * len(queries) + [False] * len(vq)
            verdicts = {}
            for sname in ("z3", "cvc5"):
                try:
                    res, dt = Solver(sname).run(allq, want)
                except subprocess.TimeoutExpired:
                    res, dt = [("unknown", None)] * len(allq), QUERY_MS / 1000
                verdicts[sname] = res
                r["solver_s"][sname] = round(dt, 2)
            r["queries"] = len(allq) * 2
            # validation must be sat in both solvers
            bad_val = [i for i in range(len(vq)) if any(verdicts[s][len(queries) + i][0] != vexp[i] for s in verdicts)]
            if bad_val:
                r.update(verdict="inconclusive", reason="E2 translator validation failed on vector %r (encoding disagrees with the compiled function)" % (VECTORS[bad_val[0]],))
                continue
            inconclusive = None
            for i, (kind, msg) in enumerate(kinds):
                a, b = verdicts["z3"][i], verdicts["cvc5"][i]
                sts = {a[0], b[0]}
                if sts == {"unsat"}:
                    continue
                if sts == {"unsat", "unknown"}:
                    r.setdefault("one_solver_only", []).append(i)
                    continue
                if "sat" in sts and "unsat" in sts:
                    inconclusive = "z3 and cvc5 disagree on query %d" % i
                    continue
                if "sat" in sts:
                    model = a[1] if a[0] == "sat" else b[1]
                    if model is None:
                        inconclusive = "sat without a model on query %d" % i
                        continue
                    vx, vy = s32(model[0]), s32(model[1])
                    nat = native(["eval", m, vx, vy], profile)
                    want_v = py_ref(MNEMONIC_OP[m], vx, vy)
                    reproduced = (nat == "PANIC") if kind == "panic" else (nat not in ("PANIC",) and int(nat) != want_v)
                    desc = msg if kind == "panic" else "[C08,C01] fold: result differs from RV32IM semantics"
                    r["failed"].append({"check": desc, "values": [vx, vy], "native": nat, "expected": want_v, "reproduced": reproduced})
                else:
                    inconclusive = "solver answered %s on query %d" % ("/".join(sorted(sts)), i)
            if r["failed"]:
                r.update(verdict="fail", reason="%d counterexample(s)" % len(r["failed"]))
            elif inconclusive:
                r.update(verdict="inconclusive", reason=inconclusive)
            else:
                r.update(verdict="pass", reason="%d path obligations unsat in z3 and cvc5; %d validation vectors agree with the native function" % (len(queries), len(vq)))
            r["paths"] = len(ex.paths)
    for r in results:
        r["wall_s"] = round(time.time() - t_start, 1)
    return results


if __name__ == "__main__":
    ms = sys.argv[1:] or list(MNEMONIC_OP)
    for r in run(ms):
        print("%-28s %-12s %s %s" % (r["name"], r["verdict"], r.get("reason", ""), r.get("failed", "") or ""))
