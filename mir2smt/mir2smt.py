#!/usr/bin/env python3
"""Engine E2: MIR -> SMT-LIB2 for loop-free integer functions of /repo.

Symbolically executes the nightly compiler's MIR of a function path by path
(the CFG must be acyclic), with machine integers as bit-vectors, and hands the
obligations to z3 and cvc5.  Used for `MathOp::operate` in both profiles
(-C overflow-checks=on / off); see DESIGN.md "E2".

An unknown MIR construct raises Unsupported: the caller reports the function as
"not applicable to this source" (inconclusive) - never a pass, never an alarm.
"""
import re

INT = {"i8": (8, True), "i16": (16, True), "i32": (32, True), "i64": (64, True), "i128": (128, True),
       "isize": (64, True), "u8": (8, False), "u16": (16, False), "u32": (32, False), "u64": (64, False),
       "u128": (128, False), "usize": (64, False)}


class Unsupported(Exception):
    pass


class Val:
    """An SMT term with its Rust type.  kind: 'int' (term), 'bool' (term), 'tuple' (items), 'option'
    (some: bool term, payload: Val), 'ref' (target Val)."""

    def __init__(self, kind, ty, term=None, items=None, some=None, payload=None):
        self.kind, self.ty, self.term, self.items, self.some, self.payload = kind, ty, term, items, some, payload


def bv(value, bits):
    return "(_ bv%d %d)" % (value % (1 << bits), bits)


def int_val(ty, term):
    return Val("int", ty, term=term)


def bool_val(term):
    return Val("bool", "bool", term=term)


def parse_function(mir_text, name_regex):
    """Return (header, body_lines) of the first fn whose header matches."""
    m = re.search(r"^fn [^\n]*" + name_regex + r"[^\n]*\{\n", mir_text, re.M)
    if not m:
        raise Unsupported("function not found in MIR dump: " + name_regex)
    start = m.start()
    end = mir_text.index("\n}\n", start)
    text = mir_text[start:end]
    return text


def split_args(s):
    out, depth, cur = [], 0, ""
    for ch in s:
        if ch in "([<":
            depth += 1
        elif ch in ")]>":
            depth -= 1
        if ch == "," and depth == 0:
            out.append(cur.strip())
            cur = ""
        else:
            cur += ch
    if cur.strip():
        out.append(cur.strip())
    return out


class Function:
    def __init__(self, text):
        header = text.split("\n", 1)[0]
        m = re.match(r"fn .*?\((.*)\) -> (.+?) \{$", header)
        if not m:
            raise Unsupported("cannot parse header: " + header)
        self.args = []
        for a in split_args(m.group(1)):
            n, t = a.split(": ", 1)
            self.args.append((n.strip(), t.strip()))
        self.ret = m.group(2)
        self.types = {}
        for lm in re.finditer(r"^\s+let (?:mut )?(_\d+): (.+);$", text, re.M):
            self.types[lm.group(1)] = lm.group(2)
        for n, t in self.args:
            self.types[n] = t
        self.blocks = {}
        for bm in re.finditer(r"^    (bb\d+)(?: \(cleanup\))?: \{\n(.*?)^    \}", text, re.M | re.S):
            lines = [l.strip() for l in bm.group(2).strip().split("\n") if l.strip()]
            self.blocks[bm.group(1)] = lines


class Path:
    def __init__(self, conds, outcome, value=None, msg=None):
        self.conds, self.outcome, self.value, self.msg = conds, outcome, value, msg


class Executor:
    def __init__(self, fn, arg_vals, overflow_checks):
        self.fn = fn
        self.paths = []
        self.checks = overflow_checks
        self.env0 = dict(arg_vals)
        self.steps = 0

    # ---- operands / places
    def place(self, env, p):
        p = p.strip()
        m = re.match(r"^\((_\d+)\.(\d+): (.+)\)$", p)
        if m:
            base = self.get(env, m.group(1))
            if base.kind != "tuple":
                raise Unsupported("field of non-tuple: " + p)
            return base.items[int(m.group(2))]
        m = re.match(r"^\(\((_\d+) as Some\)\.0: (.+)\)$", p)
        if m:
            base = self.get(env, m.group(1))
            if base.kind != "option":
                raise Unsupported("downcast of non-option: " + p)
            return base.payload
        m = re.match(r"^\(\*(_\d+)\)$", p)
        if m:
            base = self.get(env, m.group(1))
            if base.kind != "ref":
                raise Unsupported("deref of non-ref: " + p)
            return base.payload
        if re.match(r"^_\d+$", p):
            return self.get(env, p)
        raise Unsupported("place: " + p)

    def get(self, env, name):
        if name not in env:
            raise Unsupported("read of unassigned local " + name)
        return env[name]

    def const(self, c):
        c = c.strip()
        if c in ("true", "false"):
            return bool_val(c)
        m = re.match(r"^(-?\d+)_([iu]\d+|[iu]size)$", c)
        if m:
            bits, _ = INT[m.group(2)]
            return int_val(m.group(2), bv(int(m.group(1)), bits))
        m = re.match(r"^(-?0x[0-9a-fA-F_]+)_([iu]\d+|[iu]size)$", c)
        if m:
            bits, _ = INT[m.group(2)]
            return int_val(m.group(2), bv(int(m.group(1).replace("_", ""), 16), bits))
        raise Unsupported("constant: " + c)

    def operand(self, env, o):
        o = o.strip()
        if o.startswith("copy ") or o.startswith("move "):
            return self.place(env, o[5:])
        if o.startswith("const "):
            return self.const(o[6:])
        raise Unsupported("operand: " + o)

    # ---- integer helpers
    def cast(self, v, to):
        if v.kind == "bool" and to in INT:
            bits, _ = INT[to]
            return int_val(to, "(ite %s %s %s)" % (v.term, bv(1, bits), bv(0, bits)))
        if v.kind != "int" or to not in INT:
            raise Unsupported("cast %s -> %s" % (v.ty, to))
        fb, fs = INT[v.ty]
        tb, _ = INT[to]
        if tb == fb:
            return int_val(to, v.term)
        if tb < fb:
            return int_val(to, "((_ extract %d 0) %s)" % (tb - 1, v.term))
        ext = "sign_extend" if fs else "zero_extend"
        return int_val(to, "((_ %s %d) %s)" % (ext, tb - fb, v.term))

    def shift_amount(self, a, b):
        """RHS of a shift, masked to the LHS width and converted to that width."""
        ab, _ = INT[a.ty]
        bb, _ = INT[b.ty]
        t = b.term
        if bb > ab:
            t = "((_ extract %d 0) %s)" % (ab - 1, t)
        elif bb < ab:
            t = "((_ zero_extend %d) %s)" % (ab - bb, t)
        return "(bvand %s %s)" % (t, bv(ab - 1, ab))

    def binop(self, op, a, b):
        if a.kind == "bool" and b.kind == "bool":
            table = {"BitAnd": "and", "BitOr": "or", "BitXor": "xor", "Eq": "=", "Ne": "distinct"}
            if op in table:
                return bool_val("(%s %s %s)" % (table[op], a.term, b.term))
            raise Unsupported("bool binop " + op)
        if a.kind != "int" or b.kind != "int":
            raise Unsupported("binop on non-integers: " + op)
        bits, signed = INT[a.ty]
        if op in ("Shl", "Shr", "ShlUnchecked", "ShrUnchecked"):
            amt = self.shift_amount(a, b)
            f = "bvshl" if op.startswith("Shl") else ("bvashr" if signed else "bvlshr")
            return int_val(a.ty, "(%s %s %s)" % (f, a.term, amt))
        if INT[b.ty][0] != bits:
            raise Unsupported("width mismatch in " + op)
        arith = {"Add": "bvadd", "Sub": "bvsub", "Mul": "bvmul", "BitAnd": "bvand", "BitOr": "bvor", "BitXor": "bvxor",
                 "AddUnchecked": "bvadd", "SubUnchecked": "bvsub", "MulUnchecked": "bvmul"}
        if op in arith:
            return int_val(a.ty, "(%s %s %s)" % (arith[op], a.term, b.term))
        if op == "Div":
            return int_val(a.ty, "(%s %s %s)" % ("bvsdiv" if signed else "bvudiv", a.term, b.term))
        if op == "Rem":
            return int_val(a.ty, "(%s %s %s)" % ("bvsrem" if signed else "bvurem", a.term, b.term))
        cmp_ = {"Lt": "lt", "Le": "le", "Gt": "gt", "Ge": "ge"}
        if op in cmp_:
            return bool_val("(bv%s%s %s %s)" % ("s" if signed else "u", cmp_[op], a.term, b.term))
        if op == "Eq":
            return bool_val("(= %s %s)" % (a.term, b.term))
        if op == "Ne":
            return bool_val("(distinct %s %s)" % (a.term, b.term))
        raise Unsupported("binop " + op)

    def overflow_flag(self, op, a, b):
        bits, signed = INT[a.ty]
        if op == "Add":
            if signed:
                return "(bvsaddo %s %s)" % (a.term, b.term) if False else self._wide_ovf("bvadd", a, b)
            return self._wide_ovf("bvadd", a, b)
        if op == "Sub":
            return self._wide_ovf("bvsub", a, b)
        if op == "Mul":
            # range lemma: a product of two values that were extended from at most half the width
            # cannot overflow (|a|,|b| <= 2^(w/2) => |a*b| <= 2^w / 4 ... < 2^(w-1) for w >= 4);
            # this spares the solvers a 2w-bit multiplier.
            ext = re.compile(r"^\(\(_ (?:sign|zero)_extend (\d+)\) ")
            ma, mb = ext.match(a.term), ext.match(b.term)
            if ma and mb and int(ma.group(1)) * 2 >= bits and int(mb.group(1)) * 2 >= bits:
                both_zero = a.term.startswith("((_ zero") and b.term.startswith("((_ zero")
                if signed or both_zero:
                    return "false"
            return self._wide_ovf("bvmul", a, b)
        raise Unsupported("overflow flag for " + op)

    def _wide_ovf(self, f, a, b):
        """Overflow iff the operation on the doubled width differs from the extension of the narrow result."""
        bits, signed = INT[a.ty]
        ext = "sign_extend" if signed else "zero_extend"
        wa = "((_ %s %d) %s)" % (ext, bits, a.term)
        wb = "((_ %s %d) %s)" % (ext, bits, b.term)
        wide = "(%s %s %s)" % (f, wa, wb)
        narrow = "((_ %s %d) (%s %s %s))" % (ext, bits, f, a.term, b.term)
        return "(distinct %s %s)" % (wide, narrow)

    # ---- calls to core functions
    def call(self, callee, args):
        m = re.match(r"^core::num::<impl ([iu]\d+|[iu]size)>::(\w+)$", callee)
        if m:
            ty, f = m.group(1), m.group(2)
            bits, signed = INT[ty]
            a = args[0]
            b = args[1] if len(args) > 1 else None
            minv = bv(1 << (bits - 1), bits)
            if f in ("wrapping_add", "wrapping_sub", "wrapping_mul"):
                return self.binop({"wrapping_add": "Add", "wrapping_sub": "Sub", "wrapping_mul": "Mul"}[f], a, b)
            if f in ("wrapping_shl", "wrapping_shr"):
                return self.binop("Shl" if f.endswith("shl") else "Shr", a, b)
            if f in ("wrapping_div", "wrapping_rem", "checked_div", "checked_rem", "overflowing_div", "overflowing_rem"):
                is_div = f.endswith("div")
                zero = "(= %s %s)" % (b.term, bv(0, bits))
                ovf = "(and (= %s %s) (= %s %s))" % (a.term, minv, b.term, bv(-1, bits)) if signed else "false"
                raw = self.binop("Div" if is_div else "Rem", a, b).term
                wrapped = "(ite %s %s %s)" % (ovf, a.term if is_div else bv(0, bits), raw)
                if f.startswith("wrapping"):
                    # division by zero panics in every profile
                    return ("panic-if", zero, "attempt to divide by zero", int_val(ty, wrapped))
                if f.startswith("checked"):
                    return Val("option", "Option<%s>" % ty, some="(not (or %s %s))" % (zero, ovf), payload=int_val(ty, raw))
                return ("panic-if", zero, "attempt to divide by zero",
                        Val("tuple", "(%s, bool)" % ty, items=[int_val(ty, wrapped), bool_val(ovf)]))
            if f in ("checked_add", "checked_sub", "checked_mul"):
                op = {"checked_add": "Add", "checked_sub": "Sub", "checked_mul": "Mul"}[f]
                return Val("option", "Option<%s>" % ty, some="(not %s)" % self.overflow_flag(op, a, b),
                           payload=self.binop(op, a, b))
            if f in ("overflowing_add", "overflowing_sub", "overflowing_mul"):
                op = {"overflowing_add": "Add", "overflowing_sub": "Sub", "overflowing_mul": "Mul"}[f]
                return Val("tuple", "(%s, bool)" % ty, items=[self.binop(op, a, b), bool_val(self.overflow_flag(op, a, b))])
            if f in ("saturating_add", "saturating_sub", "saturating_mul"):
                op = {"saturating_add": "Add", "saturating_sub": "Sub", "saturating_mul": "Mul"}[f]
                ovf = self.overflow_flag(op, a, b)
                res = self.binop(op, a, b).term
                maxv = bv((1 << (bits - 1)) - 1, bits) if signed else bv(-1, bits)
                lo = minv if signed else bv(0, bits)
                if signed:
                    if op == "Mul":
                        neg = "(xor (bvslt %s %s) (bvslt %s %s))" % (a.term, bv(0, bits), b.term, bv(0, bits))
                    elif op == "Add":
                        neg = "(bvslt %s %s)" % (a.term, bv(0, bits))
                    else:
                        neg = "(bvslt %s %s)" % (a.term, bv(0, bits))
                    sat = "(ite %s %s %s)" % (neg, lo, maxv)
                else:
                    sat = lo if op == "Sub" else maxv
                return int_val(ty, "(ite %s %s %s)" % (ovf, sat, res))
            if f in ("checked_shl", "checked_shr"):
                big = "(bvuge %s %s)" % (b.term, bv(bits, INT[b.ty][0]))
                return Val("option", "Option<%s>" % ty, some="(not %s)" % big,
                           payload=self.binop("Shl" if f.endswith("shl") else "Shr", a, b))
            if f == "wrapping_neg":
                return int_val(ty, "(bvneg %s)" % a.term)
            if f == "unsigned_abs":
                uty = "u" + ty[1:]
                return int_val(uty, "(ite (bvslt %s %s) (bvneg %s) %s)" % (a.term, bv(0, bits), a.term, a.term))
            raise Unsupported("core::num function " + f)
        m = re.match(r"^<([iu]\d+|[iu]size) as From<([iu]\d+|bool)>>::from$", callee)
        if m:
            return self.cast(args[0], m.group(1))
        callee = re.sub(r"^(?:std|core)::option::", "", callee)
        m = re.match(r"^Option::<(.+?)>::unwrap_or$", callee)
        if m and args[0].kind == "option":
            o, d = args[0], args[1]
            return int_val(o.payload.ty, "(ite %s %s %s)" % (o.some, o.payload.term, d.term))
        m = re.match(r"^Option::<(.+?)>::(is_some|is_none)$", callee)
        if m and args[0].kind in ("option", "ref"):
            o = args[0] if args[0].kind == "option" else args[0].payload
            return bool_val(o.some if m.group(2) == "is_some" else "(not %s)" % o.some)
        raise Unsupported("call to " + callee)

    # ---- statements
    def rvalue(self, env, rv):
        rv = rv.strip()
        m = re.match(r"^discriminant\((.+)\)$", rv)
        if m:
            v = self.place(env, m.group(1))
            if v.kind == "option":
                return int_val("isize", "(ite %s %s %s)" % (v.some, bv(1, 64), bv(0, 64)))
            if v.kind == "int":
                return self.cast(v, "isize") if v.ty != "isize" else v
            raise Unsupported("discriminant of " + v.kind)
        m = re.match(r"^(.+) as ([iu]\d+|[iu]size) \(IntToInt\)$", rv)
        if m:
            return self.cast(self.operand(env, m.group(1)), m.group(2))
        m = re.match(r"^(\w+)WithOverflow\((.+)\)$", rv)
        if m:
            a, b = [self.operand(env, x) for x in split_args(m.group(2))]
            res = self.binop(m.group(1), a, b)
            return Val("tuple", "(%s, bool)" % a.ty, items=[res, bool_val(self.overflow_flag(m.group(1), a, b))])
        m = re.match(r"^(Add|Sub|Mul|Div|Rem|BitAnd|BitOr|BitXor|Shl|Shr|Lt|Le|Gt|Ge|Eq|Ne|AddUnchecked|SubUnchecked|MulUnchecked|ShlUnchecked|ShrUnchecked)\((.+)\)$", rv)
        if m:
            a, b = [self.operand(env, x) for x in split_args(m.group(2))]
            return self.binop(m.group(1), a, b)
        m = re.match(r"^Not\((.+)\)$", rv)
        if m:
            v = self.operand(env, m.group(1))
            return bool_val("(not %s)" % v.term) if v.kind == "bool" else int_val(v.ty, "(bvnot %s)" % v.term)
        m = re.match(r"^Neg\((.+)\)$", rv)
        if m:
            v = self.operand(env, m.group(1))
            return int_val(v.ty, "(bvneg %s)" % v.term)
        m = re.match(r"^\((.+)\)$", rv)
        if m and ("," in m.group(1)) and not rv.startswith("(_") and not rv.startswith("(("):
            return Val("tuple", "tuple", items=[self.operand(env, x) for x in split_args(m.group(1))])
        m = re.match(r"^&(?:mut )?(.+)$", rv)
        if m:
            return Val("ref", "ref", payload=self.place(env, m.group(1)))
        return self.operand(env, rv)

    def run(self, bb="bb0", env=None, conds=None):
        env = dict(self.env0) if env is None else env
        conds = [] if conds is None else conds
        self.steps += 1
        if self.steps > 20000:
            raise Unsupported("path explosion / cyclic control flow")
        for line in self.fn.blocks[bb]:
            line = line.rstrip(";")
            if line.startswith(("StorageLive", "StorageDead", "nop", "FakeRead", "PlaceMention", "Coverage", "Retag", "AscribeUserType")):
                continue
            if line == "return":
                self.paths.append(Path(conds, "return", value=env.get("_0")))
                return
            if line == "unreachable":
                self.paths.append(Path(conds, "unreachable"))
                return
            m = re.match(r"^goto -> (bb\d+)$", line)
            if m:
                return self.run(m.group(1), env, conds)
            m = re.match(r"^switchInt\((.+?)\) -> \[(.+)\]$", line)
            if m:
                v = self.operand(env, m.group(1))
                taken = []
                arms = split_args(m.group(2))
                cm = re.match(r"^\(_ bv(\d+) (\d+)\)$", v.term or "") if v.kind == "int" else None
                if cm:
                    # concrete scrutinee: follow the one matching arm only
                    val = int(cm.group(1))
                    target = None
                    for arm in arms:
                        k, tgt = arm.split(": ")
                        if k != "otherwise" and int(k) % (1 << int(cm.group(2))) == val:
                            target = tgt
                    if target is None:
                        target = [a.split(": ")[1] for a in arms if a.startswith("otherwise")][0]
                    return self.run(target, env, conds)
                for arm in arms:
                    k, tgt = arm.split(": ")
                    if k == "otherwise":
                        c = "(and true %s)" % " ".join("(not %s)" % t for t in taken) if taken else "true"
                        self.run(tgt, dict(env), conds + [c])
                    else:
                        if v.kind == "bool":
                            c = "(not %s)" % v.term if int(k) == 0 else v.term
                        else:
                            c = "(= %s %s)" % (v.term, bv(int(k), INT[v.ty][0]))
                        taken.append(c)
                        self.run(tgt, dict(env), conds + [c])
                return
            m = re.match(r'^assert\((!?)(.+?), "(.*?)"(?:, .*)?\) -> \[success: (bb\d+), unwind .*\]$', line)
            if m:
                v = self.operand(env, m.group(2))
                ok = "(not %s)" % v.term if m.group(1) else v.term
                self.paths.append(Path(conds + ["(not %s)" % ok], "panic", msg=m.group(3)))
                return self.run(m.group(4), env, conds + [ok])
            m = re.match(r"^(_\d+|\(\*_\d+\)) = (.+?)\((.*)\) -> \[return: (bb\d+), unwind .*\]$", line)
            if m and not re.match(r"^(copy|move|const) ", m.group(2)) and "::" in m.group(2):
                args = [self.operand(env, a) for a in split_args(m.group(3))]
                res = self.call(m.group(2).strip(), args)
                if isinstance(res, tuple) and res[0] == "panic-if":
                    _, cond, msg, val = res
                    self.paths.append(Path(conds + [cond], "panic", msg=msg))
                    conds = conds + ["(not %s)" % cond]
                    res = val
                env[m.group(1)] = res
                return self.run(m.group(4), env, conds)
            m = re.match(r"^(_\d+) = (.+)$", line)
            if m:
                env[m.group(1)] = self.rvalue(env, m.group(2))
                continue
            raise Unsupported("statement: " + line)
        raise Unsupported("block without terminator: " + bb)
