#!/usr/bin/env python3
"""Engine E5: liveness covers every real use (C02, soundness clause) on enumerated programs.

Native half: the real pipeline (binary `facts`) exports live_in / live_out of every node.
Solver half: liveness is sound iff "agreeing on the live registers" is a simulation
(non-interference): for every node n and ALL pairs of register files R1, R2 and memories M
  (for all r in live_in(n): R1[r] = R2[r])  =>
      the instruction's observable behaviour is the same in both runs
      (branch decision, jump target, effective address, stored value, ecall number)
      and for all r in live_out(n): R1'[r] = R2'[r];
and for every edge n -> m: live_in(m) is a subset of live_out(n).
If a register whose value some path reads before overwriting it were missing from a live set,
two runs differing only in that register would diverge at the read: some VC is satisfiable.
z3 decides the VCs (bit-vectors + one shared memory array); a model is re-checked in Python.

Scope: programs without calls and without environment calls other than the final exit
(what a callee or an unknown service reads is a convention, not a machine fact).  Only the
soundness clause; "least solution" is not addressed.
"""
import json
import os
import re
import subprocess
import sys
import time

HERE = os.path.dirname(os.path.abspath(__file__))
sys.path.insert(0, HERE)
import e3  # noqa: E402
import e4  # noqa: E402

bv32 = e3.bv32
A0_ARG_SERVICES = [1, 4, 8, 9, 11, 32, 34, 35, 36, 93]   # PrintInt, PrintString, ReadString, Sbrk, PrintChar, Sleep, PrintInt{Hex,Binary,Unsigned}, Exit2
A1_ARG_SERVICES = [8]                                     # ReadString (buffer, length)


CALLEE_SAVED = [2, 8, 9] + list(range(18, 28))   # sp, s0-s11 (ra is read by the return jump itself)
RETURN_REGS = [10, 11]
ARG_REGS = list(range(10, 18))


def observables(node, st, nodes=None, idx=None):
    i = node["inst"]
    if node["kind"] != "inst" or i is None:
        return []
    k = i["k"]
    R = e4.R
    if node.get("call") and node.get("callee", -1) >= 0:
        # the callee reads (at most) its argument registers - those the analysis inferred for it; that the
        # inference covers what the callee's body reads is decided inside the callee (node and edge conditions
        # from its first instruction back to its entry) and by `interprocedural_failures`
        return [("argument register x%d read by the callee" % r, R(st, r)) for r in node.get("call_args", [])]
    if node.get("is_ret"):
        # back in the caller: it may read every callee-saved register (convention) and the return registers
        # that some call site of this function has live after the call
        obs = [("jump target", R(st, i["rs1"]))] if k == "Jalr" else []
        obs += [("callee-saved x%d handed back to the caller" % r, R(st, r)) for r in CALLEE_SAVED]
        wanted = set()
        for f in (nodes or []):
            if f["kind"] == "func_entry" and f.get("fexit", -1) == idx:
                fi = nodes.index(f)
                for c in nodes:
                    if c.get("call") and c.get("callee", -1) == fi:
                        wanted |= set(c["live_out"]) & set(RETURN_REGS)
        obs += [("return register x%d read by a caller after the call" % r, R(st, r)) for r in sorted(wanted)]
        return obs
    if k == "Branch":
        a, b = R(st, i["rs1"]), R(st, i["rs2"])
        t = {"Eq": "(= %s %s)", "Ne": "(distinct %s %s)", "Lt": "(bvslt %s %s)", "Ge": "(bvsge %s %s)",
             "Ltu": "(bvult %s %s)", "Geu": "(bvuge %s %s)"}[i["cond"]] % (a, b)
        return [("branch decision", "(ite %s #b1 #b0)" % t)]
    if k == "Jalr":
        return [("jump target", "(bvadd %s %s)" % (R(st, i["rs1"]), bv32(i["imm"])))]
    if k == "Load":
        return [("load address", "(bvadd %s %s)" % (R(st, i["rs1"]), bv32(i["imm"])))]
    if k == "Store":
        mask = {"B": "#x000000ff", "H": "#x0000ffff", "W": "#xffffffff"}[i["width"]]
        return [("store address", "(bvadd %s %s)" % (R(st, i["rs1"]), bv32(i["imm"]))),
                ("stored value", "(bvand %s %s)" % (R(st, i["rs2"]), mask))]
    if k == "System" and "ecall" in node["text"]:
        # the service number, and the argument registers of the services whose signature is beyond doubt
        # (RARS "Supported syscalls"); services not listed here impose nothing
        a7 = R(st, 17)
        in_set = lambda nums: "(or false %s)" % " ".join("(= %s %s)" % (a7, bv32(n)) for n in nums)  # noqa: E731
        return [("ecall number", a7),
                ("ecall argument a0", "(ite %s %s #x00000000)" % (in_set(A0_ARG_SERVICES), R(st, 10))),
                ("ecall argument a1", "(ite %s %s #x00000000)" % (in_set(A1_ARG_SERVICES), R(st, 11)))]
    if k == "Csr":
        return [("csr operand", R(st, i["rs1"]))]
    if k == "System" and node["text"].strip() == "uret":
        # back to the interrupted program, which may go on to read any register
        return [("register x%d handed back to the interrupted program" % r, R(st, r)) for r in range(1, 32)]
    return []


CALLER_SAVED = [5, 6, 7, 28, 29, 30, 31] + list(range(10, 18))   # t0-t6, a0-a7


def clobber(node, post, fresh):
    """C02: "ecalls reading and clobbering registers as the calling convention says" - after an
    environment call every temporary and argument register holds whatever the environment left
    there: a value that does not depend on the caller's non-argument registers (the same fresh
    constant in both runs)."""
    if node["kind"] == "inst" and node["inst"] and node["inst"]["k"] == "System" and "ecall" in node["text"]:
        for c in CALLER_SAVED:
            post["r"][c] = fresh()
    return post


def reached_nodes(nodes):
    """nodes the graph reaches from an entry: code the tool's dead-code pass has cut off has no executions (and no
    predecessor to tell which service an ecall is)"""
    reached, todo = set(), [i for i, n in enumerate(nodes) if n["kind"] in ("program_entry", "func_entry")]
    while todo:
        i = todo.pop()
        if i not in reached:
            reached.add(i)
            todo += [m for m in nodes[i]["nexts"] if m >= 0]
    return reached


def vcs_for(nodes):
    out, decls = [], []
    reached = reached_nodes(nodes)
    for idx, n in enumerate(nodes):
        if idx not in reached:
            continue
        cnt = [0]

        def fresh():
            cnt[0] += 1
            name = "h%d_%d" % (idx, cnt[0])
            if ("(declare-const %s (_ BitVec 32))" % name) not in decls:
                decls.append("(declare-const %s (_ BitVec 32))" % name)
            return name
        s1 = {"r": {i: "r%d" % i for i in range(1, 32)}, "m": "M"}
        s2 = {"r": {i: "e%d" % i for i in range(1, 32)}, "m": "M"}   # second run uses the e* constants
        agree = " ".join("(= r%d e%d)" % (r, r) for r in n["live_in"] if r != 0) or "true"
        if n["kind"] == "inst" and n["text"].strip() == "ecall":
            # eligible(): the sole predecessor is `li a7, N`, so both runs reach the ecall with a7 = N
            # (which service it is decides which argument registers are read)
            prevs = [m for m in n.get("prevs", []) if m >= 0]
            pi = nodes[prevs[0]]["inst"] if len(prevs) == 1 else None
            if pi and pi["k"] == "AluImm" and pi["op"] == "Add" and pi["rd"] == 17 and pi["rs1"] == 0:
                agree += " (= r17 %s) (= e17 %s)" % (bv32(pi["imm"]), bv32(pi["imm"]))
        cnt[0] = 0
        p1 = clobber(n, e4.step(n, s1, fresh), fresh)
        cnt[0] = 0
        p2 = clobber(n, e4.step(n, s2, fresh), fresh)
        for (what, t1), (_, t2) in zip(observables(n, s1, nodes, idx), observables(n, s2, nodes, idx)):
            out.append(("at '%s': %s depends on a register that is not live-in" % (n["text"], what), idx,
                        "(and %s (distinct %s %s))" % (agree, t1, t2)))
        if n["kind"] == "func_entry":
            # not an instruction: its live-in is the function's argument guess (live-out minus the
            # registers a callee may not rely on), by design not a superset of its live-out
            continue
        for r in n["live_out"]:
            if r == 0:
                continue
            out.append(("after '%s': x%d is live-out but its value depends on a register that is not live-in" % (n["text"], r), idx,
                        "(and %s (distinct %s %s))" % (agree, p1["r"][r], p2["r"][r])))
    return out, decls


def edge_failures(nodes):
    bad = []
    for idx, n in enumerate(nodes):
        for m in n["nexts"]:
            if m < 0:
                continue
            missing = sorted(set(nodes[m]["live_in"]) - set(n["live_out"]) - {0})
            if missing:
                bad.append("edge '%s' -> '%s': live-in registers %s of the successor are not live-out" % (n["text"], nodes[m]["text"], missing))
    return bad


def interprocedural_failures(nodes):
    """the coupling between a call site and its callee, as far as it is about soundness"""
    bad = []
    for idx, n in enumerate(nodes):
        if n.get("call") and n.get("callee", -1) >= 0:
            f = nodes[n["callee"]]
            missing = sorted((set(f["live_out"]) & set(ARG_REGS)) - set(n.get("call_args", [])))
            if missing:
                bad.append("call '%s': argument registers %s are live into the callee's body but not among its inferred arguments" % (n["text"], missing))
            missing = sorted(set(n.get("call_args", [])) - set(n["live_in"]))
            if missing:
                bad.append("call '%s': the callee's argument registers %s are not live before the call" % (n["text"], missing))
        if n["kind"] == "func_entry":
            for c in nodes:
                if c.get("call") and c.get("callee", -1) == idx:
                    missing = sorted((set(c["live_out"]) & set(RETURN_REGS)) - set(n.get("frets", RETURN_REGS)))
                    if missing:
                        bad.append("call '%s': the caller reads %s after the call but Function::returns() of the callee does not contain them" % (c["text"], missing))
            missing = sorted((set(n["live_out"]) & set(ARG_REGS)) - set(n.get("fargs", n["live_out"])))
            if missing:
                bad.append("function entry: registers %s are live into the body but missing from Function::arguments()" % missing)
    return bad


def eligible(text):
    """an ecall only right after its service number has been loaded (li a7, N; ecall)"""
    lines = [l.strip() for l in text.split("\n")]
    for i, l in enumerate(lines):
        if l == "ecall" and not (i > 0 and lines[i - 1].startswith("li a7, ")):
            return False
    return True


def run(programs):
    t0 = time.time()
    exe = e4.build()
    os.makedirs(os.path.join(e4.WORK, "e5"), exist_ok=True)
    inp = os.path.join(e4.WORK, "e5", "programs_%d.txt" % os.getpid())
    with open(inp, "w") as f:
        f.write("\n----\n".join(p["text"].rstrip("\n") for p in programs) + "\n")
    p = subprocess.run([exe, inp], stdout=subprocess.PIPE, stderr=subprocess.PIPE, text=True, timeout=600)
    outs = [json.loads(l) for l in p.stdout.strip().split("\n") if l.strip()]
    try:
        os.remove(inp)
    except OSError:
        pass
    results, items, meta = [], [], []
    for prog, o in zip(programs, outs):
        r = {"name": prog["name"], "text": prog["text"], "failed": [], "queries": 0, "claims": 0}
        results.append(r)
        if "error" in o:
            r["verdict"], r["reason"] = ("fail", "pipeline panicked") if o["error"] == "panic" else ("inconclusive", "pipeline: " + o["error"])
            if o["error"] == "panic":
                r["failed"].append({"check": "the analysis pipeline panicked on a catalogue program", "model": {}, "reproduced": True})
            continue
        nodes = o["nodes"]
        r["nodes"] = len(nodes)
        r["claims"] = sum(32 - len(set(n["live_out"])) for n in nodes)   # "register is dead here" statements
        for msg in edge_failures(nodes) + interprocedural_failures(nodes):
            r["failed"].append({"check": "[C02] " + msg, "model": {}, "reproduced": True})
        vcs, decls = vcs_for(nodes)
        decls = decls + ["(declare-const la_%s (_ BitVec 32))" % l for l in e4.labels_of(nodes)]
        for what, idx, q in vcs:
            items.append((decls, q))
            meta.append((r, what))
        r["queries"] = len(vcs)
    verdicts = e4.solve(items) if items else []
    for (r, what), v, (decls, q) in zip(meta, verdicts, items):
        if v == "unsat":
            continue
        if v == "sat":
            m = e4.model_of(decls, q) if len(r["failed"]) < 2 else {"-": 1}
            r["failed"].append({"check": "[C02] liveness misses a real use: " + what, "model": {k: val for k, val in m.items() if val},
                                "reproduced": bool(m)})
        else:
            r["inconclusive"] = "solver answered %s on: %s" % (v, what)
    for r in results:
        if "verdict" in r:
            continue
        if r["failed"]:
            r["verdict"], r["reason"] = "fail", "%d liveness defect(s)" % len(r["failed"])
        elif r.get("inconclusive"):
            r["verdict"], r["reason"] = "inconclusive", r["inconclusive"]
        else:
            r["verdict"], r["reason"] = "pass", "%d nodes: %d verification conditions unsat" % (r.get("nodes", 0), r["queries"])
    return results, time.time() - t0


if __name__ == "__main__":
    import e4_programs
    fam = e4_programs.families("quick")
    for k, progs in fam.items():
        progs = [p for p in progs if eligible(p["text"])]
        if not progs:
            continue
        res, dt = run(progs)
        bad = [r for r in res if r["verdict"] != "pass"]
        print(k, len(res), "programs", len(bad), "not passing", "%.1fs" % dt, sum(r["queries"] for r in res), "queries")
        for r in bad[:4]:
            print("   ", r["name"], "|", r["text"].replace("\n", "; ")[:120], "|", r["reason"])
            for f in r["failed"][:2]:
                print("        ", f["check"][:220])
