#!/usr/bin/env python3
"""Engine E6: the control-flow graph covers the program's real control flow (C03) on enumerated programs.

Native half: the real pipeline (binary `facts`) exports, for every CFG node, its successors and
predecessors, the decoded instruction, the labels attached to it and (for branches / jumps) the label
it names.  Instruction k of the program (in program order) is given the address 4*k.

Solver half (z3): for every instruction node n and ALL register files R,
      next_pc(n, R)  is the address of some successor of n
where next_pc is the architectural successor inside one function: pc+4 for straight-line instructions,
`ite(cond(R), address(label), pc+4)` for a branch, address(label) for a jump, pc+4 for a call (the
return to the instruction after it) and for an environment call that is not an exit service.  A
satisfying assignment is a register file under which the machine goes somewhere the graph has no edge to.
(The service number of an ecall is the constant the preceding `li a7, N` loaded, as in E5.)

Decided without a solver, on the same export (finite relations): successor and predecessor relations
are exact inverses; every edge is justified - a fall-through from an instruction that can fall through,
the label written in the instruction, or the merge of a further return into its function's exit; no
edge leaves an exit ecall.

Outside: indirect jumps (jalr other than ret), the unreachable-code lint, programs outside the
families, the CFG builder as code (seen only through its output).
"""
import json
import os
import subprocess
import sys
import time

HERE = os.path.dirname(os.path.abspath(__file__))
sys.path.insert(0, HERE)
import e3  # noqa: E402
import e4  # noqa: E402

bv32 = e3.bv32
EXIT_SERVICES = [10, 93]
COND = {"Eq": "(= %s %s)", "Ne": "(distinct %s %s)", "Lt": "(bvslt %s %s)", "Ge": "(bvsge %s %s)",
        "Ltu": "(bvult %s %s)", "Geu": "(bvuge %s %s)"}


def layout(nodes):
    """-> (addr: node index -> address or None, label -> address)"""
    addr, k = {}, 0
    for idx, n in enumerate(nodes):
        if n["kind"] == "inst":
            addr[idx] = 4 * k
            k += 1
    # a synthetic entry node stands for the first instruction after it
    nxt = None
    for idx in range(len(nodes) - 1, -1, -1):
        if nodes[idx]["kind"] == "inst":
            nxt = addr[idx]
        elif nodes[idx]["kind"] in ("program_entry", "func_entry"):
            addr[idx] = nxt
    labels = {}
    for idx, n in enumerate(nodes):
        if n["kind"] in ("inst", "func_entry", "program_entry") and addr.get(idx) is not None:
            for l in n.get("labels", []):
                labels.setdefault(l, addr[idx])
    return addr, labels


def a7_pin(nodes, n):
    prevs = [m for m in n.get("prevs", []) if m >= 0]
    pi = nodes[prevs[0]]["inst"] if len(prevs) == 1 else None
    if pi and pi["k"] == "AluImm" and pi["op"] == "Add" and pi["rd"] == 17 and pi["rs1"] == 0:
        return pi["imm"]
    return None


def next_pc(nodes, idx, addr, labels):
    """-> (SMT term of the next pc or None when nothing is required, assumption, falls_through, target address or None)"""
    n = nodes[idx]
    i = n["inst"]
    pc4 = bv32(addr[idx] + 4)
    k = i["k"]
    st = {"r": {r: "r%d" % r for r in range(1, 32)}}
    R = e4.R
    tgt = labels.get(n.get("label")) if n.get("label") else None
    if k == "Branch":
        if tgt is None:
            return None, "true", True, None
        c = COND[i["cond"]] % (R(st, i["rs1"]), R(st, i["rs2"]))
        return "(ite %s %s %s)" % (c, bv32(tgt), pc4), "true", True, tgt
    if k == "Jal":
        if n.get("call"):
            return pc4, "true", True, None          # the return to the instruction after the call
        if tgt is None:
            return None, "true", False, None
        return bv32(tgt), "true", False, tgt
    if k == "Jalr":
        return None, "true", False, None            # ret / indirect jump: nothing inside the function is required
    if k == "System":
        text = n["text"].strip()
        if text == "ecall":
            pin = a7_pin(nodes, n)
            if pin is not None:
                if pin in EXIT_SERVICES:
                    return None, "true", False, None
                return pc4, "(= r17 %s)" % bv32(pin), True, None
            # unknown service: some execution continues
            return pc4, "(and %s)" % " ".join("(distinct r17 %s)" % bv32(x) for x in EXIT_SERVICES), True, None
        if text in ("uret", "ebreak"):
            return None, "true", text == "ebreak", None
        return pc4, "true", True, None
    return pc4, "true", True, None


def analyse(nodes):
    """-> (queries [(what, smt)], structural failures [str])"""
    addr, labels = layout(nodes)
    qs, bad = [], []
    fexits = {}
    for idx, n in enumerate(nodes):
        if n["kind"] == "func_entry" and n.get("fexit", -1) >= 0:
            fexits[n["fexit"]] = idx
    # nodes the graph itself reaches from an entry (dead-code elimination has already cut the edges of the rest; the
    # first missing edge on a real path starts at a reached node)
    reached, todo = set(), [i for i, n in enumerate(nodes) if n["kind"] in ("program_entry", "func_entry")]
    while todo:
        i = todo.pop()
        if i in reached:
            continue
        reached.add(i)
        todo += [m for m in nodes[i]["nexts"] if m >= 0]
    for idx, n in enumerate(nodes):
        # inverse relations
        for m in n["nexts"]:
            if m >= 0 and idx not in nodes[m].get("prevs", []):
                bad.append("'%s' -> '%s' is a successor edge without the matching predecessor edge" % (n["text"], nodes[m]["text"]))
        for m in n.get("prevs", []):
            if m >= 0 and idx not in nodes[m]["nexts"]:
                bad.append("'%s' <- '%s' is a predecessor edge without the matching successor edge" % (n["text"], nodes[m]["text"]))
        if n["kind"] != "inst" or n["inst"] is None:
            continue
        term, assume, falls, tgt = next_pc(nodes, idx, addr, labels)
        succ = [m for m in n["nexts"] if m >= 0]
        succ_addrs = sorted({addr[m] for m in succ if addr.get(m) is not None})
        if term is not None and idx in reached:
            inside = " ".join("(= %s %s)" % (term, bv32(a)) for a in succ_addrs)
            last_inst = addr[idx] + 4 not in set(addr.values())
            if not (last_inst and falls and tgt is None):   # running off the end of the text is not a transfer between instructions
                qs.append(("at '%s' the machine can go to an address no edge leads to" % n["text"], idx,
                           "(and %s (not (or false %s)))" % (assume, inside)))
        # every edge is justified
        for m in succ:
            a = addr.get(m)
            ok = (falls and a == addr[idx] + 4) or (tgt is not None and a == tgt)
            if not ok and (n.get("is_ret") or n.get("label") == "__return__") and m in fexits:
                ok = True      # the merge of a further return into the function's exit
            if not ok:
                bad.append("edge '%s' -> '%s' is neither a fall-through, nor the label written in the instruction, nor a return merged into its function's exit" % (n["text"], nodes[m]["text"]))
        if n["inst"]["k"] == "System" and n["text"].strip() == "ecall" and a7_pin(nodes, n) in EXIT_SERVICES and succ:
            bad.append("an edge leaves the exit ecall '%s'" % n["text"])
    return qs, bad


def run(programs):
    t0 = time.time()
    exe = e4.build()
    os.makedirs(os.path.join(e4.WORK, "e6"), exist_ok=True)
    inp = os.path.join(e4.WORK, "e6", "programs_%d.txt" % os.getpid())
    with open(inp, "w") as f:
        f.write("\n----\n".join(p["text"].rstrip("\n") for p in programs) + "\n")
    p = subprocess.run([exe, inp], stdout=subprocess.PIPE, stderr=subprocess.PIPE, text=True, timeout=600)
    outs = [json.loads(l) for l in p.stdout.strip().split("\n") if l.strip()]
    try:
        os.remove(inp)
    except OSError:
        pass
    results, items, meta = [], [], []
    for prog, o in zip(programs, outs):
        r = {"name": prog["name"], "text": prog["text"], "failed": [], "queries": 0, "claims": 0}
        results.append(r)
        if "error" in o:
            r["verdict"], r["reason"] = ("fail", "pipeline panicked") if o["error"] == "panic" else ("inconclusive", "pipeline: " + o["error"])
            if o["error"] == "panic":
                r["failed"].append({"check": "the analysis pipeline panicked on a catalogue program", "model": {}, "reproduced": True})
            continue
        nodes = o["nodes"]
        r["nodes"] = len(nodes)
        qs, bad = analyse(nodes)
        r["claims"] = sum(len(n["nexts"]) for n in nodes)
        for msg in bad:
            r["failed"].append({"check": "[C03] " + msg, "model": {}, "reproduced": True})
        for what, idx, q in qs:
            items.append(([], q))
            meta.append((r, what))
        r["queries"] = len(qs)
    verdicts = e4.solve(items) if items else []
    for (r, what), v, (decls, q) in zip(meta, verdicts, items):
        if v == "unsat":
            continue
        if v == "sat":
            m = e4.model_of(decls, q) if len(r["failed"]) < 2 else {"-": 1}
            r["failed"].append({"check": "[C03] a real control transfer is not an edge: " + what, "model": {k: val for k, val in m.items() if val},
                                "reproduced": True})
        else:
            r["inconclusive"] = "solver answered %s on: %s" % (v, what)
    for r in results:
        if "verdict" in r:
            continue
        if r["failed"]:
            r["verdict"], r["reason"] = "fail", "%d control-flow defect(s)" % len(r["failed"])
        elif r.get("inconclusive"):
            r["verdict"], r["reason"] = "inconclusive", r["inconclusive"]
        else:
            r["verdict"], r["reason"] = "pass", "%d nodes: %d verification conditions unsat" % (r.get("nodes", 0), r["queries"])
    return results, time.time() - t0


def eligible(text):
    return True


if __name__ == "__main__":
    import e4_programs
    fam = e4_programs.families("quick")
    for k, progs in fam.items():
        res, dt = run(progs)
        bad = [r for r in res if r["verdict"] != "pass"]
        print(k, len(res), "programs", len(bad), "not passing", "%.1fs" % dt, sum(r["queries"] for r in res), "queries")
        for r in bad[:4]:
            print("   ", r["name"], "|", r["text"].replace("\n", "; ")[:160], "|", r["reason"])
            for f in r["failed"][:2]:
                print("        ", f["check"][:220], f["model"])
