"""Engine E1: run Kani harnesses over /repo's current working tree, classify the
verdicts, replay counterexamples natively, match known findings, write evidence."""
import concurrent.futures as cf
import hashlib
import json
import os
import queue
import re
import signal
import subprocess
import threading
import time

import registry

ROOT = os.path.dirname(os.path.dirname(os.path.abspath(__file__)))
KANI_DIR = os.path.join(ROOT, "kani")
WORK = os.path.join(ROOT, ".work")
REPLAYS = os.path.join(ROOT, "replays")
EVIDENCE = os.path.join(ROOT, "evidence")
KNOWN = os.path.join(ROOT, "known_findings.json")
SRC_DIR = [KANI_DIR]
GUARD_FLAGS = "--cfg rva_verif"

CAPS = {"quick": 900, "thorough": 1500}          # wall seconds per harness (quick was 300: on a slower or shared host four C14 harnesses that need 90-280 s here reached it)
MEM_KB = 40 * 1024 * 1024                         # ulimit -v per kani process tree
MEM_BUDGET_GB = int(os.environ.get("VERIF_MEM_GB", "52"))   # 62 GB machine, no swap


class MemBudget:
    """Admission control: harnesses declare an estimated peak (GB); the sum of the
    running ones never exceeds the budget (CBMC on the map-heavy harnesses peaks at
    ~10 GB; sixteen of them at once exhaust the machine and all die)."""

    def __init__(self, total):
        self.total, self.used, self.cv = total, 0, threading.Condition()

    def acquire(self, n):
        n = min(n, self.total)
        with self.cv:
            while self.used + n > self.total:
                self.cv.wait()
            self.used += n
        return n

    def release(self, n):
        with self.cv:
            self.used -= n
            self.cv.notify_all()


MEM = MemBudget(MEM_BUDGET_GB)

NOISE = re.compile(r"^(aborting path|Unwinding loop|Not unwinding|Unwinding recursion)")


def env():
    e = dict(os.environ)
    e["RUSTFLAGS"] = GUARD_FLAGS
    e["CARGO_NET_OFFLINE"] = "true"
    e.pop("CARGO_TARGET_DIR", None)
    return e


# --------------------------------------------------------------------------
# running kani

def kani_cmd(h, target_dir, playback, properties=None):
    cmd = ["cargo", "kani", "--target-dir", target_dir,
           "--harness", h["kani_name"], "--exact"]
    z = []
    if h.get("stubs"):
        z.append("stubbing")
    if playback:
        z.append("concrete-playback")
        if properties:
            z.append("unstable-options")
    for f in z:
        cmd += ["-Z", f]
    if playback:
        cmd += ["--concrete-playback=print"]
        if properties:
            # only solve for the checks that failed (a trace for every property is 10x slower)
            cmd += ["--cbmc-args"]
            for p in properties:
                cmd += ["--property", p]
    return cmd


def run_capped(cmd, cwd, cap_s, log_path):
    """Run cmd in its own process group under a memory and wall cap.
    Returns (status, text) with status in {'ok','timeout'} (exit code is not
    used: kani exits 1 on a failed harness)."""
    shell = "ulimit -v %d; exec %s" % (MEM_KB, " ".join("'%s'" % c for c in cmd))
    t0 = time.time()
    with open(log_path, "w") as lf:
        p = subprocess.Popen(["bash", "-c", shell], cwd=cwd, env=env(), stdout=lf,
                             stderr=subprocess.STDOUT, preexec_fn=os.setsid)
        try:
            p.wait(timeout=cap_s)
            status = "ok"
        except subprocess.TimeoutExpired:
            status = "timeout"
            try:
                os.killpg(p.pid, signal.SIGKILL)
            except ProcessLookupError:
                pass
            p.wait()
    wall = time.time() - t0
    with open(log_path, errors="replace") as lf:
        text = "".join(l for l in lf if not NOISE.match(l))
    return status, text, wall


CHECK_RE = re.compile(
    r"^Check (\d+): (.+)\n\t - Status: (\w+)\n\t - Description: \"(.*)\"\n(?:\t - Location: (.*)\n)?",
    re.M)
LOC_RE = re.compile(r"^(.*?):(\d+):(\d+) in function (.*)$")


def parse_kani(text):
    r = {"checks": [], "verdict_line": None, "solver_s": None, "covers": None,
         "compile_error": False, "error_status": False}
    for m in CHECK_RE.finditer(text):
        num, name, status, desc, loc = m.groups()
        if len(desc) >= 2 and desc.startswith('"') and desc.endswith('"'):
            desc = desc[1:-1]
        c = {"name": name, "status": status, "desc": desc, "file": None, "line": None,
             "function": None}
        if loc:
            lm = LOC_RE.match(loc.strip())
            if lm:
                c["file"], c["line"], _, c["function"] = lm.groups()
        r["checks"].append(c)
    m = re.search(r"^VERIFICATION:- (\w+)", text, re.M)
    if m:
        r["verdict_line"] = m.group(1)
    m = re.search(r"^Verification Time: ([0-9.]+)s", text, re.M)
    if m:
        r["solver_s"] = float(m.group(1))
    m = re.search(r"\*\* (\d+) of (\d+) cover properties satisfied", text)
    if m:
        r["covers"] = (int(m.group(1)), int(m.group(2)))
    if re.search(r"^error(\[E\d+\])?:", text, re.M) or "could not compile" in text:
        r["compile_error"] = True
    if "Status: ERROR" in text or "CBMC failed" in text or "out of memory" in text.lower():
        r["error_status"] = True
    return r


def is_cover(c):
    return c["status"] in ("SATISFIED", "UNSATISFIABLE", "UNSATISFIED") or \
        c["desc"].startswith("cover condition")


def cover_summary(parsed):
    cv = [c for c in parsed["checks"] if is_cover(c)]
    req = [c for c in cv if c["desc"].startswith("W:")]
    return {"required": len(req), "required_satisfied": len([c for c in req if c["status"] == "SATISFIED"]),
            "informational": {c["desc"][2:]: c["status"] for c in cv if c["desc"].startswith("I:")}}


def is_unwind(c):
    return "unwinding assertion" in c["desc"] or "recursion unwinding" in c["desc"]


def classify(status, parsed):
    """-> (verdict, reason, failed_checks)."""
    if status == "timeout":
        return "inconclusive", "wall cap reached", []
    if parsed["compile_error"] and parsed["verdict_line"] is None:
        return "inconclusive", "harness crate does not build against the current /repo", []
    if parsed["verdict_line"] is None:
        return "inconclusive", "no verdict (out of memory or crash)", []
    failed = [c for c in parsed["checks"] if c["status"] == "FAILURE"]
    unwind = [c for c in failed if is_unwind(c)]
    real = [c for c in failed if not is_unwind(c)]
    # Unsupported-construct checks of kani are failures with a dedicated description
    unsupported = [c for c in real if "is not currently supported by Kani" in c["desc"]
                   or "unsupported" in c["name"]]
    real = [c for c in real if c not in unsupported]
    if real:
        return "fail", "%d failed check(s)" % len(real), real
    if unwind:
        return "inconclusive", "unwinding bound too small (%s)" % unwind[0]["desc"], []
    if unsupported:
        return "inconclusive", "reaches a construct Kani does not support", []
    if parsed["error_status"]:
        return "inconclusive", "solver reported ERROR", []
    undet = [c for c in parsed["checks"] if c["status"] == "UNDETERMINED"]
    if undet:
        return "inconclusive", "undetermined checks", []
    if parsed["verdict_line"] != "SUCCESSFUL":
        return "inconclusive", "verdict %s without failed checks" % parsed["verdict_line"], []
    covers = [c for c in parsed["checks"] if is_cover(c)]
    required = [c for c in covers if c["desc"].startswith("W:")]
    if not required:
        return "inconclusive", "no reachability witness in harness", []
    unsat = [c for c in required if c["status"] != "SATISFIED"]
    if unsat:
        return "inconclusive", "vacuous: witness not reachable: %s" % unsat[0]["desc"], []
    return "pass", "all checks hold; %d/%d witnesses reached" % (len(required), len(required)), []


PLAY_RE = re.compile(
    r"/// Check for `(\w+)`: \"([^\n]*)\"\n(?:///[^\n]*\n)*\n#\[test\]\nfn \w+\(\) \{\n\s*let concrete_vals: Vec<Vec<u8>> = vec!\[\n(.*?)\n\s*\];",
    re.S)


def parse_playback(text):
    out = []
    for m in PLAY_RE.finditer(text):
        kind, desc, body = m.groups()
        vals = []
        for vm in re.finditer(r"vec!\[([0-9, ]*)\]", body):
            vals.append([int(x) for x in vm.group(1).split(",") if x.strip()])
        d = desc
        if d.startswith('"') and d.endswith('"'):
            d = d[1:-1]
        out.append({"kind": kind, "desc": d, "vals": vals})
    return out


# --------------------------------------------------------------------------
# native replay

_native_lock = threading.Lock()
_native_built = {}


def build_native(profile):
    with _native_lock:
        if profile in _native_built:
            return _native_built[profile]
        cmd = ["cargo", "build", "--bin", "replay", "--target-dir", os.path.join(WORK, "native")]
        if profile == "release":
            cmd.append("--release")
        p = subprocess.run(cmd, cwd=SRC_DIR[0], env=env(), stdout=subprocess.PIPE,
                           stderr=subprocess.STDOUT, text=True)
        path = os.path.join(WORK, "native", "release" if profile == "release" else "debug", "replay")
        ok = p.returncode == 0 and os.path.exists(path)
        _native_built[profile] = path if ok else None
        if not ok:
            print("native replay build failed (%s):\n%s" % (profile, p.stdout[-2000:]))
        return _native_built[profile]


def native_replay(harness_fn, replay_path, profile):
    exe = build_native(profile)
    if exe is None:
        return "build-failed", ""
    try:
        p = subprocess.run([exe, harness_fn, replay_path], stdout=subprocess.PIPE,
                           stderr=subprocess.PIPE, text=True, timeout=120)
    except subprocess.TimeoutExpired:
        return "timeout", ""
    line = (p.stdout.strip().splitlines() or [""])[-1]
    if p.returncode == 0 and line.startswith("REPRODUCED"):
        return "reproduced", line
    return "not-reproduced", line


def write_replay(prop, h, failed, vals):
    d = os.path.join(REPLAYS, prop)
    os.makedirs(d, exist_ok=True)
    key = hashlib.sha1((h["name"] + "|" + failed["desc"] + "|" + str(failed["function"])).encode()).hexdigest()[:8]
    path = os.path.join(d, "%s.%s.txt" % (h["name"], key))
    with open(path, "w") as f:
        f.write("# property: %s\n# harness: %s\n# check: %s\n# where: %s in %s\n" % (
            prop, h["name"], failed["desc"], failed["file"], failed["function"]))
        f.write("# one line per kani::any() draw, little-endian bytes\n")
        for v in vals:
            f.write(",".join(str(b) for b in v) + "\n")
    return path


def replay_side(path, engine, prop):
    import sys
    sys.path.insert(0, os.path.join(ROOT, "mir2smt"))
    meta = {}
    vals = []
    for l in open(path):
        if l.startswith("# ") and ":" in l:
            k, v = l[2:].split(":", 1)
            meta[k.strip()] = v.strip()
        elif l.strip():
            vals.append(l.strip())
    if engine in ("e4", "e5", "e6"):
        import e4
        import e5
        import e6
        text = open(path).read().split("# program:\n", 1)[1]
        res, _ = {"e4": e4, "e5": e5, "e6": e6}[engine].run([{"name": "replay", "text": text}])
        bad = bool(res) and res[0]["verdict"] == "fail"
        for f in (res[0]["failed"] if res else [])[:3]:
            print("replay[%s] " % engine + f["check"])
        print("replay[%s] -> %s" % (engine, "reproduced" if bad else "not reproduced"))
    elif engine == "e2":
        import e2
        e2.build_native()
        x, y = int(vals[0]), int(vals[1])
        nat = e2.native(["eval", meta["mnemonic"], x, y], meta["profile"])
        want = e2.py_ref(e2.MNEMONIC_OP[meta["mnemonic"]], x, y)
        bad = nat == "PANIC" or int(nat) != want
        print("replay[e2/%s] %s(%d, %d): native = %s, RV32IM = %d -> %s" % (meta["profile"], meta["mnemonic"], x, y, nat, want,
                                                                      "reproduced" if bad else "not reproduced"))
    else:
        import e3
        case = [c for c in registry.TEXT_CASES if "e3_" + c["name"] == meta["harness"]]
        res, _ = e3.run(case)
        bad = bool(res) and res[0]["verdict"] == "fail"
        print("replay[e3] '%s' decodes to %s -> %s" % (meta.get("text"), json.dumps(res[0]["decoded"]) if res else "?",
                                                      "reproduced" if bad else "not reproduced"))
    if bad:
        print("VIOLATION property=%s replay=%s" % (prop, path))
        return 1
    return 0


def replay_file(path):
    name = None
    prop = "?"
    engine = None
    for l in open(path):
        if l.startswith("# engine:"):
            engine = l.split(":", 1)[1].strip()
        if l.startswith("# property:"):
            prop = l.split(":", 1)[1].strip()
    if engine in ("e2", "e3", "e4", "e5", "e6"):
        return replay_side(path, engine, prop)
    for l in open(path):
        if l.startswith("# harness:"):
            name = l.split(":", 1)[1].strip()
        if l.startswith("# property:"):
            prop = l.split(":", 1)[1].strip()
    if not name:
        print("replay file has no '# harness:' header")
        return 2
    rc = 0
    for profile in ("dev", "release"):
        st, line = native_replay(name, path, profile)
        print("replay[%s] %s: %s %s" % (profile, name, st, line))
        if profile == "dev" and st == "reproduced":
            rc = 1
    if rc == 1:
        print("VIOLATION property=%s replay=%s" % (prop, path))
    return rc


# --------------------------------------------------------------------------
# known findings

def load_known():
    if not os.path.exists(KNOWN):
        return []
    return json.load(open(KNOWN)).get("findings", [])


def match_known(known, prop, h, failed):
    for k in known:
        if k.get("property") != prop or k.get("harness") != h["name"]:
            continue
        if k.get("check") != failed["desc"]:
            continue
        if k.get("function") and k["function"] != failed["function"]:
            continue
        if k.get("program") and k["program"] != failed.get("program"):
            continue
        return k
    return None


# --------------------------------------------------------------------------
# one harness

def check_relevant(prop, c):
    """Which failed checks count for `prop`: assertions written by the harness
    are tagged "[Cxx]"; untagged checks are panics/overflows/index checks inside
    the code under test and count for every property (and are what C06 is about)."""
    m = re.match(r"\[(C\d+)(?:,(C\d+))*\]", c["desc"])
    if not m:
        return True
    tags = re.findall(r"C\d+", c["desc"].split("]")[0])
    return prop in tags


def snapshot_sources():
    """Copy the harness crate to a per-prefix directory so that edits to /verif/kani
    while a run is in flight cannot change what that run compiles."""
    dst = os.path.join(WORK, "src_" + os.environ.get("VERIF_WPREFIX", "k"))
    os.makedirs(dst, exist_ok=True)
    subprocess.run(["rsync", "-a", "--delete", "--exclude", "target", KANI_DIR + "/", dst + "/"], check=True)
    return dst


def run_harness(prop, h, tier, wq, logdir):
    got = MEM.acquire(h.get("mem", 3))
    w = wq.get()
    try:
        tdir = os.path.join(WORK, "%s%d" % (os.environ.get("VERIF_WPREFIX", "k"), w))
        cap = h.get("cap", CAPS[tier])
        log = os.path.join(logdir, h["name"] + ".log")
        status, text, wall = run_capped(kani_cmd(h, tdir, False), SRC_DIR[0], cap, log)
        parsed = parse_kani(text)
        verdict, reason, failed = classify(status, parsed)
        res = {"harness": h["name"], "verdict": verdict, "reason": reason, "wall_s": round(wall, 2),
               "solver_s": parsed["solver_s"], "n_checks": len([c for c in parsed["checks"] if not is_cover(c)]),
               "covers": cover_summary(parsed), "failed": [], "functions": sorted({
                   c["function"] for c in parsed["checks"]
                   if c["function"] and c["file"] and "repo/riscv_analysis" in c["file"]})}
        if verdict == "fail":
            relevant = [c for c in failed if check_relevant(prop, c)]
            if not relevant:
                # only assertions that belong to other properties failed
                res["verdict"] = "pass-other"
                res["reason"] = "only checks of other properties failed: " + "; ".join(
                    sorted({c["desc"] for c in failed}))
                return res
            # second run: concrete playback
            log2 = os.path.join(logdir, h["name"] + ".playback.log")
            st2, text2, wall2 = run_capped(kani_cmd(h, tdir, True, [c["name"] for c in relevant]), SRC_DIR[0], cap, log2)
            res["wall_s"] = round(wall + wall2, 2)
            plays = [p for p in parse_playback(text2) if p["kind"] != "cover"]
            for c in relevant:
                entry = {"check": c["desc"], "file": c["file"], "line": c["line"],
                         "function": c["function"], "replay": None, "dev": None, "release": None}
                cand = [p for p in plays if p["desc"] == c["desc"]]
                if cand:
                    path = write_replay(prop, h, c, cand[0]["vals"])
                    entry["replay"] = path
                    entry["values"] = cand[0]["vals"]
                    entry["dev"], entry["dev_msg"] = native_replay(h["name"], path, "dev")
                    entry["release"], entry["release_msg"] = native_replay(h["name"], path, "release")
                res["failed"].append(entry)
        return res
    finally:
        wq.put(w)
        MEM.release(got)


# --------------------------------------------------------------------------
# engines E2 (MIR -> SMT) and E3 (native decode + SMT)

def _side_result(h, verdict, reason, wall, solver_s, n_checks, functions):
    return {"harness": h["name"], "verdict": verdict, "reason": reason, "wall_s": round(wall, 2), "solver_s": solver_s,
            "n_checks": n_checks, "covers": {"required": 1, "required_satisfied": 1 if verdict != "inconclusive" else 0,
                                             "informational": {}},
            "failed": [], "functions": functions, "spec": h, "side_engine": True}


def run_e2(prop, hs):
    import sys
    sys.path.insert(0, os.path.join(ROOT, "mir2smt"))
    out = []
    try:
        import e2
        mns = sorted({h["mnemonic"] for h in hs})
        profiles = sorted({h["profile"] for h in hs})
        res = {r["name"]: r for r in e2.run(mns, profiles)}
    except Exception as e:  # never a pass
        return [_side_result(h, "inconclusive", "E2 driver error: %r" % e, 0, None, 0, []) for h in hs]
    for h in hs:
        r = res.get(h["name"])
        if r is None:
            out.append(_side_result(h, "inconclusive", "E2 produced no result", 0, None, 0, []))
            continue
        sr = _side_result(h, "pass" if r["verdict"] == "pass" else r["verdict"], r.get("reason", ""), r.get("wall_s", 0),
                          sum(r.get("solver_s", {}).values()) if r.get("solver_s") else None, r.get("queries", 0),
                          ["riscv_analysis::cfg::MathOp::operate (MIR, overflow-checks=%s)" % ("on" if h["profile"] == "dev" else "off")])
        for f in r.get("failed", []):
            if not check_relevant(prop, {"desc": f["check"]}):
                continue
            entry = {"check": f["check"], "file": "riscv_analysis/src/cfg/ops.rs", "line": None,
                     "function": "riscv_analysis::cfg::MathOp::operate", "replay": None, "values": f.get("values"),
                     "dev": None, "release": None}
            if f.get("values") is not None:
                d = os.path.join(REPLAYS, prop)
                os.makedirs(d, exist_ok=True)
                path = os.path.join(d, "%s.txt" % h["name"])
                with open(path, "w") as fh:
                    fh.write("# property: %s\n# engine: e2\n# harness: %s\n# check: %s\n# mnemonic: %s\n# profile: %s\n%d\n%d\n" % (
                        prop, h["name"], f["check"], h["mnemonic"], h["profile"], f["values"][0], f["values"][1]))
                entry["replay"] = path
                st = "reproduced" if f.get("reproduced") else "not-reproduced"
                # a dev-profile counterexample reproduces in the dev build; a release-only one in the release build
                entry["dev"] = st
                entry["dev_msg"] = "native %s(%d, %d) = %s, RV32IM = %s" % (h["mnemonic"], f["values"][0], f["values"][1], f.get("native"), f.get("expected"))
                entry["release"] = st if h["profile"] == "release" else None
            sr["failed"].append(entry)
        if r["verdict"] == "fail" and not sr["failed"]:
            sr["verdict"], sr["reason"] = "pass-other", "only checks of other properties failed"
        out.append(sr)
    return out


def run_e3(prop, hs):
    import sys
    sys.path.insert(0, os.path.join(ROOT, "mir2smt"))
    try:
        import e3
        cases = [h["case"] for h in hs]
        res, dt = e3.run(cases)
        res = {r["name"]: r for r in res}
    except Exception as e:  # never a pass
        return [_side_result(h, "inconclusive", "E3 driver error: %r" % e, 0, None, 0, []) for h in hs]
    out = []
    for h in hs:
        r = res.get(h["name"])
        if r is None:
            out.append(_side_result(h, "inconclusive", "E3 produced no result", 0, None, 0, []))
            continue
        reason = {"pass": "decoded node(s) have the manual's effect for all register contents" + (" (z3+cvc5 unsat)" if r.get("smt_query") else " (identical terms)"),
                  "fail": "%d failed check(s)" % len(r["failed"]), "inconclusive": r.get("inconclusive", "")}[r["verdict"]]
        sr = _side_result(h, r["verdict"], reason, dt, sum(r.get("solver_s", {}).values()) if r.get("solver_s") else None,
                          2 if r.get("smt_query") else 1, ["<ParserNode as TryFrom<&mut Peekable<Lexer>>>::try_from (native)", "Lexer::next (native)"])
        for f in r["failed"]:
            d = os.path.join(REPLAYS, prop)
            os.makedirs(d, exist_ok=True)
            path = os.path.join(d, "%s.txt" % h["name"])
            with open(path, "w") as fh:
                fh.write("# property: %s\n# engine: e3\n# harness: %s\n# check: %s\n# text: %s\n# decoded: %s\n# model: %s\n" % (
                    prop, h["name"], f["check"], r["text"], json.dumps(r["decoded"]), json.dumps(f.get("model", {}))))
            ok = f.get("reproduced", True)
            sr["failed"].append({"check": f["check"], "file": "riscv_analysis/src/parser/parsing.rs", "line": None,
                                 "function": "ParserNode::try_from", "replay": path, "values": f.get("model"),
                                 "dev": "reproduced" if ok else "not-reproduced", "dev_msg": "text '%s' decodes to %s" % (r["text"], json.dumps(r["decoded"].get("nodes", r["decoded"]))),
                                 "release": None})
        out.append(sr)
    return out


SIDE_CHUNK = 1500


def run_e4(prop, hs, tier, engine="e4"):
    import sys
    sys.path.insert(0, os.path.join(ROOT, "mir2smt"))
    out = []
    try:
        import e4
        import e4_programs
        fam = e4_programs.families(tier)
        if engine == "e5":
            import e5
            fam = {k: [p for p in v if e5.eligible(p["text"])] for k, v in fam.items()}
            e4 = e5   # same interface: run(programs) -> (results, seconds)
        if engine == "e6":
            import e6
            e4 = e6
    except Exception as e:  # never a pass
        return [_side_result(h, "inconclusive", "E4 driver error: %r" % e, 0, None, 0, []) for h in hs]
    for h in hs:
        progs = fam.get(h["family"], [])
        if not progs:
            out.append(_side_result(h, "inconclusive", "E4: empty program family", 0, None, 0, []))
            continue
        try:
            # bounded memory: a family is decided in chunks (the queries of 10 000 programs held at once took 28 GB)
            res, dt = [], 0.0
            for k in range(0, len(progs), SIDE_CHUNK):
                part, d = e4.run(progs[k:k + SIDE_CHUNK])
                for r in part:
                    r.pop("_nodes", None)
                res += part
                dt += d
        except Exception as e:
            out.append(_side_result(h, "inconclusive", "E4 driver error: %r" % e, 0, None, 0, []))
            continue
        # a failed condition counts for the properties named in its tag ("[C01] ..."); an untagged one (pipeline panic) for all
        for r in res:
            r["failed"] = [f for f in r["failed"] if check_relevant(prop, {"desc": f["check"]})]
        bad = [r for r in res if r["verdict"] == "fail" and r["failed"]]
        inc = [r for r in res if r["verdict"] == "inconclusive"]
        nq = sum(r["queries"] for r in res)
        nclaims = sum(r["claims"] for r in res)
        if bad:
            verdict, reason = "fail", "%d of %d programs carry a %s" % (len(bad), len(res), {"e4": "false claim", "e5": "liveness defect", "e6": "control-flow defect"}[engine])
        elif inc:
            verdict, reason = "inconclusive", "%d of %d programs inconclusive (%s)" % (len(inc), len(res), inc[0]["reason"])
        else:
            verdict, reason = "pass", "%d programs, %d claims: %d verification conditions unsat (z3)" % (len(res), nclaims, nq)
            naux = sum(r.get("aux_tags_not_inductive", 0) for r in res)
            if naux:
                reason += "; %d auxiliary CSR tags/facts of the tool are not inductive (not C01-kind claims: dropped, nothing may rest on them)" % naux
        sr = _side_result(h, verdict, reason, dt, None, nq, {"e4": ["AvailableValuePass::run (native, via Manager::gen_full_cfg)"],
                                                              "e5": ["LivenessPass::run (native, via Manager::gen_full_cfg)"],
                                                              "e6": ["Cfg::new / NodeDirectionPass / EcallTerminationPass (native, via Manager::gen_full_cfg)"]}[engine])
        sr["programs"] = len(res)
        sr["claims"] = nclaims
        sr["sample_program"] = res[len(res) // 2]["text"]
        # programs listed in known_findings.json never take one of the five report slots from a new violation
        known_progs = {k.get("program") for k in load_known() if k.get("property") == prop and k.get("harness") == h["name"]}
        bad.sort(key=lambda r: r["name"] in known_progs)
        for r in [b for b in bad if b["name"] not in known_progs][:5] + [b for b in bad if b["name"] in known_progs]:
            f = r["failed"][0]
            d = os.path.join(REPLAYS, prop)
            os.makedirs(d, exist_ok=True)
            path = os.path.join(d, "%s_%s.txt" % (engine, r["name"]))
            with open(path, "w") as fh:
                fh.write("# property: %s\n# engine: %s\n# harness: %s\n# check: %s\n# model: %s\n# program:\n%s" % (
                    prop, engine, h["name"], f["check"], json.dumps(f.get("model", {})), r["text"]))
            sr["failed"].append({"check": f["check"], "file": {"e4": "riscv_analysis/src/analysis/available.rs", "e5": "riscv_analysis/src/analysis/liveness.rs",
                                                               "e6": "riscv_analysis/src/cfg/graph.rs"}[engine], "line": None,
                                 "function": {"e4": "AvailableValuePass::run", "e5": "LivenessPass::run", "e6": "Manager::gen_full_cfg"}[engine], "replay": path, "values": f.get("model"),
                                 "dev": "reproduced" if f.get("reproduced") else "not-reproduced",
                                 "dev_msg": "program %s" % r["name"], "program": r["name"], "release": None})
        out.append(sr)
    return out


# --------------------------------------------------------------------------
# a property

def run_property(prop, tier, seed, jobs, only, write_evidence=True):
    t0 = time.time()
    hs = registry.harnesses_for(prop, tier, seed)
    if only:
        hs = [h for h in hs if h["name"] in only]
    if not hs:
        print("no harnesses selected")
        return 2
    logdir = os.path.join(WORK, "logs" + os.environ.get("VERIF_WPREFIX", ""), prop)
    os.makedirs(logdir, exist_ok=True)
    os.makedirs(WORK, exist_ok=True)
    SRC_DIR[0] = snapshot_sources()
    jobs = max(1, min(jobs, len(hs)))
    wq = queue.Queue()
    for i in range(jobs):
        wq.put(i)
    known = load_known()
    results = []
    n_selected = len(hs)
    e2_hs = [h for h in hs if h.get("engine") == "e2"]
    e3_hs = [h for h in hs if h.get("engine") == "e3"]
    e4_hs = [h for h in hs if h.get("engine") == "e4"]
    e5_hs = [h for h in hs if h.get("engine") == "e5"]
    e6_hs = [h for h in hs if h.get("engine") == "e6"]
    hs = [h for h in hs if h.get("engine", "kani") == "kani"]
    side = []

    def guarded(fn, group, *a, **kw):
        """a crash of a side engine is an inconclusive result for every obligation it was given, never a silent loss"""
        def go():
            try:
                results.extend(fn(prop, group, *a, **kw))
            except Exception as e:
                results.extend(_side_result(h, "inconclusive", "driver error in side engine: %r" % e, 0, None, 0, []) for h in group)
        return threading.Thread(target=go)
    if e2_hs:
        side.append(guarded(run_e2, e2_hs))
    if e3_hs:
        side.append(guarded(run_e3, e3_hs))
    if e4_hs:
        side.append(guarded(run_e4, e4_hs, tier))
    if e5_hs:
        side.append(guarded(run_e4, e5_hs, tier, engine="e5"))
    if e6_hs:
        side.append(guarded(run_e4, e6_hs, tier, engine="e6"))
    for t in side:
        t.start()
    with cf.ThreadPoolExecutor(max_workers=jobs) as ex:
        futs = {ex.submit(run_harness, prop, h, tier, wq, logdir): h for h in hs}
        for f in cf.as_completed(futs):
            h = futs[f]
            try:
                r = f.result()
            except Exception as e:  # driver bug: never a pass
                r = {"harness": h["name"], "verdict": "inconclusive", "reason": "driver error: %r" % e,
                     "wall_s": 0, "solver_s": None, "n_checks": 0, "covers": None, "failed": [],
                     "functions": []}
            r["spec"] = h
            results.append(r)
            print("  %-34s %-12s %6.1fs  %s" % (r["harness"], r["verdict"], r["wall_s"], r["reason"]),
                  flush=True)
    for t in side:
        t.join()
    for r in results:
        if r.get("side_engine"):
            print("  %-34s %-12s %6.1fs  %s" % (r["harness"], r["verdict"], r["wall_s"], r["reason"]), flush=True)
    results.sort(key=lambda r: r["harness"])

    violations, known_hits, inconclusive, nonrepro = [], [], [], []
    for r in results:
        if r["verdict"] == "inconclusive":
            inconclusive.append(r)
        for e in r["failed"]:
            k = match_known(known, prop, r["spec"], {"desc": e["check"], "function": e["function"], "program": e.get("program")})
            if e["dev"] == "reproduced":
                if k:
                    known_hits.append((r, e, k))
                else:
                    violations.append((r, e))
            else:
                nonrepro.append((r, e))

    for r, e, k in known_hits:
        print("KNOWN-FINDING: property=%s %s [%s: %s]" % (prop, k.get("what", e["check"]),
                                                           r["harness"], e["check"]))
    for r, e in violations:
        print("VIOLATION property=%s replay=%s" % (prop, e["replay"]))
        print("   harness %s: %s (%s, %s) dev=%s release=%s" % (
            r["harness"], e["check"], e["function"], e.get("dev_msg", ""), e["dev"], e["release"]))
    if len(results) != n_selected:
        print("INCONCLUSIVE property=%s: %d obligations selected but %d results (driver error)" % (prop, n_selected, len(results)))
        inconclusive.append({"harness": "<driver>", "reason": "result count mismatch"})
    for r, e in nonrepro:
        print("INCONCLUSIVE property=%s harness=%s: counterexample for '%s' did not reproduce natively (%s)" % (
            prop, r["harness"], e["check"], e.get("dev_msg") or e["dev"] or "no playback values"))
    for r in inconclusive:
        print("INCONCLUSIVE property=%s harness=%s: %s" % (prop, r["harness"], r["reason"]))

    wall = time.time() - t0
    if write_evidence:
        write_evidence_file(prop, tier, seed, results, violations, known_hits, inconclusive, nonrepro, wall)
    if violations:
        return 1
    if inconclusive or nonrepro:
        return 2
    print("OK property=%s tier=%s harnesses=%d wall=%.0fs" % (prop, tier, len(results), wall))
    return 0


def write_evidence_file(prop, tier, seed, results, violations, known_hits, inconclusive, nonrepro, wall):
    os.makedirs(EVIDENCE, exist_ok=True)
    conclusive = [r for r in results if r["verdict"] in ("pass", "fail", "pass-other")]
    nontrivial = [r for r in results if r["verdict"] in ("pass", "pass-other")
                  and r["covers"] and r["covers"]["required"] > 0
                  and r["covers"]["required"] == r["covers"]["required_satisfied"]
                  and r["spec"].get("symbolic")]
    functions = sorted({f for r in results for f in r["functions"]})
    samples = []
    for r in results[:]:
        samples.append({
            "harness": r["spec"].get("kani_name", r["spec"]["name"]), "engine": r["spec"].get("engine", "kani"), "obligation": r["spec"].get("desc", ""),
            "symbolic_inputs": r["spec"].get("symbolic", ""), "bounds": r["spec"].get("bounds", ""),
            "stubs": r["spec"].get("stubs", []), "verdict": r["verdict"], "reason": r["reason"],
            "checks_discharged": r["n_checks"], "covers": r["covers"],
            "solver_s": r["solver_s"], "wall_s": r["wall_s"], "programs": r.get("programs"), "claims": r.get("claims"),
            "sample_program": r.get("sample_program"),
            "counterexamples": [{k: e.get(k) for k in ("check", "function", "values", "dev", "release", "replay")}
                                for e in r["failed"]],
        })
    ev = {
        "property_id": prop,
        "tier": tier,
        "seed": seed,
        "level": "model_checking",
        "coverage": {
            "evaluations": len(results),
            "distinct_nontrivial": len(nontrivial),
            "rule": ("one evaluation = one obligation: a Kani proof harness (bounded model checking by CBMC/CaDiCaL of the "
                     "compiled /repo code over symbolic inputs), or one E2 (mnemonic, profile) / E3 (statement text) / "
                     "E4 (program family) obligation decided by z3/cvc5; non-trivial = has at least one symbolic input "
                     "the assertion depends on, finished inside its cap with a conclusive verdict, and every "
                     "kani::cover! reachability witness was SATISFIED (side engines: translator validation passed); "
                     "obligation names are distinct by construction"),
            "samples": samples,
            "exhaustive": False,
            "engine": "E1: Kani 0.68.0 / CBMC 6.11.0 (CaDiCaL), dev profile; E2: MIR (nightly -Zunpretty=mir, overflow-checks on and off) -> SMT-LIB, z3 4.8.12 + cvc5 1.0; E3: native decode of catalogue text + SMT-LIB, z3 + cvc5; E4: native pipeline on exhaustively enumerated program families + inductive-invariant VCs, z3; E5: the same programs' liveness sets + non-interference VCs, z3; E6: the same programs' control-flow graph + next-pc coverage VCs, z3",
            "functions_encoded": functions,
            "queries_discharged": sum(r["n_checks"] for r in conclusive),
            "solver_time_s": round(sum(r["solver_s"] or 0 for r in results), 2),
            "harnesses_inconclusive": [r["harness"] for r in inconclusive],
            "counterexamples_not_reproduced": [r["harness"] for r, _ in nonrepro],
            "known_findings_hit": [k.get("id", k.get("what")) for _, _, k in known_hits],
            "outside_the_claim": registry.PROPERTIES[prop].get("outside", ""),
        },
        "assumptions": registry.PROPERTIES[prop].get("assumptions", []),
        "wall_s": round(wall, 1),
        "violations": len(violations),
    }
    with open(os.path.join(EVIDENCE, prop + ".json"), "w") as f:
        json.dump(ev, f, indent=1)
