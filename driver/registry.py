"""Registry of proof harnesses: which Kani harness serves which property, in
which tier, with which bounds/stubs.  The Rust side lives in /verif/kani/src."""

PROPERTIES = {}
HARNESSES = []


def prop(pid, outside, assumptions):
    PROPERTIES[pid] = {"outside": outside, "assumptions": assumptions}


def h(name, module, props, tier="quick", symbolic="", desc="", bounds="", stubs=None, cap=None,
      optional=False):
    """props: list of property ids this harness serves.  tier: 'quick' harnesses
    run in both tiers, 'thorough' ones only in the thorough tier.  optional:
    rotated in by VERIF_SEED in the quick tier."""
    d = {"name": name, "module": module, "kani_name": "%s::proofs::%s" % (module, name),
         "props": props, "tier": tier, "symbolic": symbolic, "desc": desc, "bounds": bounds,
         "stubs": stubs or [], "optional": optional}
    if cap:
        d["cap"] = cap
    HARNESSES.append(d)


def harnesses_for(pid, tier, seed=0):
    out = []
    opt = []
    for x in HARNESSES:
        if pid not in x["props"]:
            continue
        if tier == "thorough":
            out.append(x)
        elif x["tier"] == "quick":
            (opt if x["optional"] else out).append(x)
    if tier == "quick" and opt:
        # VERIF_SEED rotates which quarter of the optional harnesses joins the core set
        k = max(1, len(opt) // 4)
        start = (seed * k) % len(opt)
        out += [opt[(start + i) % len(opt)] for i in range(k)]
    return out


COMMON_ASSUME = [
    "Kani 0.68 / CBMC 6.11 model Rust's dev profile (overflow checks, debug assertions) soundly",
    "hooks behind --cfg rva_verif only expose private items / swap std hash containers for Vec-backed look-alikes",
    "mem::forget of heap values at the end of a harness (drop glue is outside the code under test)",
]

# ---------------------------------------------------------------------------
# C08 / C01.a / C06: constant folding
FOLD = [("add", "Add"), ("addi", "Add"), ("sub", "Sub"), ("and", "And"), ("andi", "And"), ("or", "Or"),
        ("ori", "Or"), ("xor", "Xor"), ("xori", "Xor"), ("sll", "Sll"), ("slli", "Sll"), ("srl", "Srl"),
        ("srli", "Srl"), ("sra", "Sra"), ("srai", "Sra"), ("slt", "Slt"), ("slti", "Slt"), ("sltu", "Sltu"),
        ("sltiu", "Sltu"), ("mul", "Mul"), ("mulh", "Mulh"), ("mulhsu", "Mulhsu"), ("mulhu", "Mulhu"),
        ("div", "Div"), ("divu", "Divu"), ("rem", "Rem"), ("remu", "Remu")]
# mul/div/divu/rem/remu: two 32-bit multiplier/divider circuits are not decided by CBMC+CaDiCaL
# inside 300 s (measured); these five operators are decided by engine E2 (MIR -> SMT-LIB, z3 + cvc5).
KANI_HARD = {"mul", "div", "divu", "rem", "remu"}
for m, op in FOLD:
    if m in KANI_HARD:
        continue
    h("fold_" + m, "ob_fold", ["C08", "C01", "C06"],
      symbolic="x:i32, y:i32 (all 2^64 pairs)",
      desc="Inst::%s.math_op().operate(x,y) == RV32IM %s(x,y), no panic" % (m.capitalize(), op),
      bounds="none (loop-free)")
for m in ("add", "addi", "sub"):
    h("scalar_" + m, "ob_fold", ["C08", "C01", "C06"], symbolic="x:i32, y:i32",
      desc="Inst::%s.scalar_op().operate(x,y) == RV32IM semantics" % m.capitalize(), bounds="none")

prop("C08",
     outside="mnemonic spellings outside the catalogue; RV64 *w forms; text layout (symbolic text is out of reach)",
     assumptions=COMMON_ASSUME + ["rvref.rs is a faithful transcription of the RV32IM ISA manual semantics"])
prop("C01",
     outside="composition of the local steps inside AvailableValuePass::run (fix point over a heap graph); "
             "the lints that consume the values",
     assumptions=COMMON_ASSUME + ["rvref.rs is a faithful transcription of the RV32IM ISA manual semantics",
                                  "gamma (DESIGN.md section 4) is the intended meaning of each AvailableValue variant"])
prop("C06",
     outside="panic-freedom of lexing/parsing arbitrary text, of the passes, lints and CLI; termination; time bounds",
     assumptions=COMMON_ASSUME)
