"""Registry of proof harnesses: which Kani harness serves which property, in
which tier, with which bounds/stubs.  The Rust side lives in /verif/kani/src."""

PROPERTIES = {}
HARNESSES = []


def prop(pid, outside, assumptions):
    PROPERTIES[pid] = {"outside": outside, "assumptions": assumptions}


def h(name, module, props, tier="quick", symbolic="", desc="", bounds="", stubs=None, cap=None,
      optional=False, mem=3):
    """props: list of property ids this harness serves.  tier: 'quick' harnesses
    run in both tiers, 'thorough' ones only in the thorough tier.  optional:
    rotated in by VERIF_SEED in the quick tier."""
    d = {"name": name, "module": module, "kani_name": "%s::proofs::%s" % (module, name),
         "props": props, "tier": tier, "symbolic": symbolic, "desc": desc, "bounds": bounds,
         "stubs": stubs or [], "optional": optional, "mem": mem}
    if cap:
        d["cap"] = cap
    HARNESSES.append(d)


def side(name, engine, props, tier="quick", symbolic="", desc="", bounds="", **extra):
    d = {"name": name, "engine": engine, "props": props, "tier": tier, "symbolic": symbolic, "desc": desc, "bounds": bounds,
         "stubs": [], "optional": False, "kani_name": "%s:%s" % (engine, name)}
    d.update(extra)
    HARNESSES.append(d)


def harnesses_for(pid, tier, seed=0):
    out = []
    opt = []
    for x in HARNESSES:
        if pid not in x["props"]:
            continue
        if tier == "thorough":
            out.append(x)
        elif x["tier"] == "quick":
            (opt if x["optional"] else out).append(x)
    if tier == "quick" and opt:
        # VERIF_SEED rotates which quarter of the optional harnesses joins the core set
        k = max(1, len(opt) // 4)
        start = (seed * k) % len(opt)
        out += [opt[(start + i) % len(opt)] for i in range(k)]
    return out


COMMON_ASSUME = [
    "Kani 0.68 / CBMC 6.11 model Rust's dev profile (overflow checks, debug assertions) soundly",
    "hooks behind --cfg rva_verif only expose private items / swap std hash containers for Vec-backed look-alikes",
    "mem::forget of heap values at the end of a harness (drop glue is outside the code under test)",
]

# ---------------------------------------------------------------------------
# C08 / C01.a / C06: constant folding
FOLD = [("add", "Add"), ("addi", "Add"), ("sub", "Sub"), ("and", "And"), ("andi", "And"), ("or", "Or"),
        ("ori", "Or"), ("xor", "Xor"), ("xori", "Xor"), ("sll", "Sll"), ("slli", "Sll"), ("srl", "Srl"),
        ("srli", "Srl"), ("sra", "Sra"), ("srai", "Sra"), ("slt", "Slt"), ("slti", "Slt"), ("sltu", "Sltu"),
        ("sltiu", "Sltu"), ("mul", "Mul"), ("mulh", "Mulh"), ("mulhsu", "Mulhsu"), ("mulhu", "Mulhu"),
        ("div", "Div"), ("divu", "Divu"), ("rem", "Rem"), ("remu", "Remu")]
# mul/div/divu/rem/remu: two 32-bit multiplier/divider circuits are not decided by CBMC+CaDiCaL
# inside 300 s (measured); these five operators are decided by engine E2 (MIR -> SMT-LIB, z3 + cvc5).
KANI_HARD = {"mul", "div", "divu", "rem", "remu"}
for m, op in FOLD:
    if m in KANI_HARD:
        continue
    h("fold_" + m, "ob_fold", ["C08", "C01", "C06"],
      symbolic="x:i32, y:i32 (all 2^64 pairs)",
      desc="Inst::%s.math_op().operate(x,y) == RV32IM %s(x,y), no panic" % (m.capitalize(), op),
      bounds="none (loop-free)")
for m, op in FOLD:
    for profile in ("dev", "release"):
        side("e2_fold_%s_%s" % (m, profile), "e2", ["C08", "C01", "C06"], symbolic="x, y: (_ BitVec 32), all pairs",
             desc="MIR of MathOp::operate (%s profile) for %s: no panic path is satisfiable and every return value equals RV32IM %s(x,y); z3 and cvc5" % (
                 profile, m, op),
             bounds="none (loop-free); 24 validation vectors pushed through the native function and the encoding", mnemonic=m, profile=profile)
for m in ("add", "addi", "sub"):
    h("scalar_" + m, "ob_fold", ["C08", "C01", "C06"], symbolic="x:i32, y:i32",
      desc="Inst::%s.scalar_op().operate(x,y) == RV32IM semantics" % m.capitalize(), bounds="none")

prop("C08",
     outside="mnemonic spellings outside the catalogue; RV64 *w forms; text layout (symbolic text is out of reach)",
     assumptions=COMMON_ASSUME + ["rvref.rs is a faithful transcription of the RV32IM ISA manual semantics"])
prop("C01",
     outside="programs outside E4's enumerated families (longer bodies, other instructions, nested control flow, recursion); "
             "sub-word aliasing (word-granular memory model); stores through registers other than sp; callees that break the "
             "convention; AvailableValuePass::run as code (it is only seen through its output on E4's programs); the lints that "
             "consume the values",
     assumptions=COMMON_ASSUME + ["rvref.rs is a faithful transcription of the RV32IM ISA manual semantics",
                                  "gamma (DESIGN.md section 4) is the intended meaning of each AvailableValue variant"])
prop("C06",
     outside="panic-freedom of lexing/parsing arbitrary text, of the passes, lints and CLI; termination; time bounds",
     assumptions=COMMON_ASSUME)

# ---------------------------------------------------------------------------
# C17 / C06: numeric literals
LOWER = ["str::to_lowercase -> byte-wise ASCII lower-casing (inputs are ASCII)"]
IMM = [
    ("imm_hex8", "quick", "sign, value:u32 (all), letter case per digit, x/X", "[-]0x + 8 hex digits", "8 digits, unwind 13"),
    ("imm_hex9", "quick", "sign, value < 16^9, case per digit", "[-]0x + 9 hex digits: every 9-digit magnitude, incl. all out-of-range ones", "9 digits"),
    ("imm_hex1", "quick", "sign, value < 16", "[-]0x + 1 hex digit", "1 digit"),
    ("imm_hex4", "thorough", "sign, value < 16^4", "[-]0x + 4 hex digits", "4 digits"),
    ("imm_bin32", "thorough", "sign, value:u32 (all), b/B", "[-]0b + 32 binary digits", "32 digits, unwind 37"),
    ("imm_bin33", "thorough", "sign, value < 2^33", "[-]0b + 33 binary digits (out of range magnitudes)", "33 digits"),
    ("imm_bin5", "thorough", "sign, value < 32", "[-]0b + 5 binary digits", "5 digits"),
    ("imm_dec9", "thorough", "sign, 9 decimal digits", "[-] + 9 decimal digits: every value up to 999 999 999", "9 digits"),
    ("imm_dec10_window", "quick", "sign, last 4 of 10 decimal digits", "[-]214748dddd: the 10 000 values around 2^31, both signs", "10 digits, 6 fixed"),
    ("imm_dec10", "thorough", "sign, value < 10^10", "[-] + 10 decimal digits: every value up to 9 999 999 999", "10 digits"),
    ("imm_dec6", "thorough", "sign, 6 decimal digits", "[-] + 6 decimal digits", "6 digits"),
    ("imm_dec3", "thorough", "sign, value < 1000", "[-] + 3 decimal digits", "3 digits"),
    ("imm_bin16", "quick", "sign, 16 bits", "[-]0b + 16 binary digits", "16 digits"),
    ("imm_dec11", "thorough", "sign, 11 decimal digits", "[-] + 11 decimal digits (far out of range)", "11 digits"),
    ("imm_malformed1", "quick", "1 byte over [0-9a-zA-Z_-]", "accepted => matches the literal grammar with the denoted value; in-range => accepted", "1 byte"),
    ("imm_malformed2", "quick", "2 bytes over [0-9a-zA-Z_-]", "same, 2 bytes", "2 bytes"),
    ("imm_malformed3", "quick", "3 bytes over [0-9a-zA-Z_-]", "same, 3 bytes", "3 bytes"),
    ("imm_malformed4", "quick", "4 bytes over [0-9a-zA-Z_-]", "same, 4 bytes", "4 bytes"),
    ("imm_malformed5", "thorough", "5 bytes over [0-9a-zA-Z_-]", "same, 5 bytes", "5 bytes"),
    ("imm_malformed6", "thorough", "6 bytes over [0-9a-zA-Z_-]", "same, 6 bytes", "6 bytes"),
    ("imm_csr_hex3", "quick", "value < 0x1000, mixed case", "CsrImm::from_str of a 3-digit hex number is that number", "3 digits"),
]
for name, tier, sym, desc, bounds in IMM:
    h(name, "ob_imm", ["C17", "C06"], tier=tier, symbolic=sym, desc="Imm::from_str: " + desc, bounds=bounds,
      stubs=LOWER)
h("imm_char_token", "ob_imm", ["C17", "C06"], symbolic="code point: every char",
  desc="Imm::try_from(Token Char(c)) == c as i32", bounds="none")

prop("C17",
     outside="lui's << 12 and .word/.byte value lists (inside the parser, digits cannot be symbolic there; lui is "
             "exercised with boundary literals under C08); non-ASCII spellings; literals longer than the templates",
     assumptions=COMMON_ASSUME + ["str::to_lowercase stubbed by an ASCII model; harness strings are ASCII (all the lexer's symbol alphabet allows)",
                                  "oracle is the weakest reading: decimal 2^31..2^32-1 may be rejected"])

# ---------------------------------------------------------------------------
# C09 / C06: lexer position bookkeeping
h("lexpos_cursor6", "ob_lexpos", ["C09", "C06"], symbolic="length n<=6, 6 chars (any Unicode scalar)",
  desc="consume_char/get_pos/get_range: (line, column, raw) of every character of every string of length <= 6",
  bounds="strings of <= 6 chars, unwind 8")
h("lexpos_cursor3", "ob_lexpos", ["C09", "C06"], symbolic="length n<=3, 3 chars",
  desc="same, strings of length <= 3 (fast twin)", bounds="<= 3 chars")
h("lexpos_cursor8", "ob_lexpos", ["C09", "C06"], tier="thorough", symbolic="length n<=8, 8 chars",
  desc="same, strings of length <= 8", bounds="<= 8 chars, unwind 10")
h("lexpos_position_order", "ob_lexpos", ["C09", "C06", "C18"], symbolic="two positions (line, column, raw: usize)",
  desc="Position ordering is raw-offset order; one-based = zero-based + 1; increment_column", bounds="none")
h("lexpos_position_line_start", "ob_lexpos", ["C09", "C06"], symbolic="position with column <= raw",
  desc="decrement_to_beginning_of_line lands on column 0, raw - column", bounds="none")
h("lexpos_range_order", "ob_lexpos", ["C09", "C18"], symbolic="four raw offsets",
  desc="Range ordering is (start.raw, end.raw) lexicographic", bounds="none")
prop("C09",
     outside="which cursor index each token kind uses for its start/end (inside Lexer::next, not executable with "
             "symbolic layout); whole-instruction ranges; diagnostics' ranges; included files; CLI rendering",
     assumptions=COMMON_ASSUME + ["reference position: line = newlines before the index, column = distance from the line start, raw = index"])

# ---------------------------------------------------------------------------
# C14: register tables, set algebra, equivariance
UUID = ["uuid::Uuid::new_v4 -> injective counter (ids are only compared for equality)"]
h("regs_tables", "ob_regs", ["C14"], symbolic="register r (0..31)", desc="all 13 register-class sets equal the psABI masks", bounds="none")
h("regs_num_roundtrip", "ob_regs", ["C14", "C06"], symbolic="n:u8", desc="from_num/to_num inverse on 0..31, rejected above", bounds="none")
for n in (1, 2, 3, 4, 5):
    h("regs_from_str%d" % n, "ob_regs", ["C14", "C13x"], tier="quick" if n <= 4 else "thorough",
      symbolic="%d ASCII bytes" % n, desc="Register::from_str accepts exactly the ABI/numeric spellings (all %d-byte ASCII strings)" % n,
      bounds="%d bytes" % n)
h("regs_set_algebra", "ob_regs", ["C14", "C06", "C01"], symbolic="masks a,b:u32; registers r,q",
  desc="RegisterSet | & - (sets and single registers), assign forms, contains, equality == bit-mask algebra", bounds="unwind 34")
h("regs_set_iter", "ob_regs", ["C14", "C06", "C01"], symbolic="mask a:u32", desc="first three next() calls yield the three smallest members in order", bounds="3 steps, unwind 34")
h("regs_ecall_table", "ob_regs", ["C14", "C06"], symbolic="call number:i32, register q",
  desc="environment_in_outs mentions only a-registers, never returns in a7", bounds="none")
KINDS = ["arith", "iarith", "jal", "jalr", "basic", "branch", "store", "load", "la", "csr", "csri", "funcentry"]
GROUPS = [("kill", "kill_reg"), ("gen", "gen_reg"), ("rw", "writes_to, reads_from"), ("values", "gen_reg_value, gen_memory_value"),
          ("preds", "is_return, is_ureturn, is_ecall, can_skip_save_checks, is_unconditional_jump, calls_to, jumps_to"),
          ("memops", "stores_to_memory, reads_from_memory, uses_memory_location")]
for i, k in enumerate(KINDS):
    for j, (g, fs) in enumerate(GROUPS):
        if g == "gen":
            continue  # see props_*_gen: gen_reg is out of reach
        if g == "rw" and k == "branch":
            continue  # two nodes, two sources and a label each: out of memory after 580 s (measured)
        core = (g in ("kill", "gen", "rw") and k in ("arith", "jal", "store", "load", "jalr")) or (g == "values" and k in ("iarith", "load", "store"))
        heavy = g == "rw" and k in ("arith", "branch", "store")
        h("equiv_%s_%s" % (k, g), "ob_regs", ["C14"], tier="thorough" if (g == "rw" and k == "branch") else "quick", optional=not core,
          cap=(1500 if k == "branch" else 900) if heavy else None, mem=8 if heavy else 3,
          symbolic="node fields (opcode, rd, rs1, rs2, imm, csr), transposition (a b) of two symbolic registers of the temporary or of the saved class, probe register",
          desc="f(pi.node) == pi.f(node) for f in {%s} on %s nodes" % (fs, k),
          bounds="transpositions (generate all permutations); unwind 9", stubs=UUID)
prop("C14",
     outside="that passes and lints use only these functions and set operations; label renaming (string hashing/equality "
             "through Cfg::new); hence the program-level statement",
     assumptions=COMMON_ASSUME + ["psABI register classes as transcribed in ob_regs.rs", "Uuid::new_v4 stubbed by an injective counter"])

# ---------------------------------------------------------------------------
# C08.d / C01.d: per-instruction property functions against the ISA formats
PGROUPS = [("rw", "reads_from/writes_to == architectural source/destination fields", ["C08"]),
           ("kill", "kill_reg == (rd) minus x0, caller-saved at calls and function entries", ["C01", "C08"]),
           ("gen", "gen_reg == source registers minus x0, callee-saved at ret, all at uret", ["C08"]),
           ("misc", "memory operands give the effective address; jump/call/return predicates agree with the ISA", ["C08"])]
for k in KINDS:
    for g, d, ps in PGROUPS:
        if g == "rw" and k == "branch":
            continue  # reads_from on a two-source node carrying a label: not decided in 1500 s (measured)
        if g == "gen":
            # gen_reg consumes reads_from() by value; the drop glue of the tokens it carries makes the
            # formula explode (17 M variables, out of memory) even for one node: not registered.
            continue
        h("props_%s_%s" % (k, g), "ob_props", ps, symbolic="node fields (opcode, registers, imm, csr), probe register" + (", 32 register contents" if g == "misc" else ""),
          desc="%s node: %s" % (k, d), bounds="unwind 34", stubs=UUID,
          cap=(1500 if k == "branch" else 900) if (g == "rw" and k in ("arith", "branch", "store")) else None, mem=6 if g == "rw" else 3,
          tier="thorough" if (g == "rw" and k == "branch") else "quick",
          optional=(g == "misc" and k in ("basic", "la", "csri", "funcentry")) or (g in ("kill", "gen") and k in ("basic", "la", "csri", "branch")))
for k in ("iarith", "jalr", "branch", "store", "load", "csr"):  # (arith: two copies of every multiplier/divider, not decided in 1500 s)
    h("oracle_ni_" + k, "ob_props", ["C08"], tier="thorough", symbolic="node fields, two register files",
      desc="oracle self-check: rvref::effect depends only on rvref::arch_reads", bounds="unwind 34")

# ---------------------------------------------------------------------------
# C08.b/c: text catalogue
import json as _json
import os as _os
_cases = _json.load(open(_os.path.join(_os.path.dirname(_os.path.abspath(__file__)), "..", "kani", "catalogue", "text_cases.json")))
TEXT_CASES = _cases
for c in _cases:
    side("e3_" + c["name"], "e3", ["C08", "C13"] + (["C17"] if c["name"].startswith(("text_u_lui", "text_p_li")) else []),
         tier="quick",  # E3 decides all 162 texts in a few seconds: no reason to leave any to the thorough tier
         symbolic="31 register contents, pc, loaded words, label address: (_ BitVec 32)",
         desc="text '%s' (parsed natively by the real Lexer + ParserNode::try_from) has the effect of %s for all register contents" % (
             c["text"], "; ".join(e["k"] for e in c["expected"])),
         bounds="concrete text (catalogue); <= 2 instructions", case=c)
for c in []:  # Kani cannot execute ParserNode::try_from on text inside its caps (measured, DESIGN.md section 1): decided by engine E3
    h(c["name"], "gen_text", ["C08"] + (["C13x"] if c["pseudo"] else []), tier=c["tier"],
      symbolic="32 register contents, loaded value, pc",
      desc="text '%s' parses (real Lexer + ParserNode::try_from) to %s for all register contents" % (c["text"], "; ".join(c["expected"])),
      bounds="concrete text (catalogue), unwind len+6", stubs=UUID + LOWER)

# ---------------------------------------------------------------------------
# C01.b/e: generated facts, seeding, meet, kill
for k in ("arith", "arith_zero", "iarith", "load", "la", "jal", "jalr", "csr", "csri", "store", "branch"):
    h("gen_reg_" + k, "ob_gen", ["C01"], symbolic="node fields, entry/pre register files, addressed memory word",
      desc="gen_reg_value of a %s node is true (gamma) in the post-state of the instruction" % k, bounds="unwind 34", stubs=UUID)
h("gen_mem_store_sp", "ob_gen", ["C01"], symbolic="store width, registers, imm, register file, old memory word",
  desc="gen_memory_value of an sp-relative store: slot offset and content are what the store writes", bounds="unwind 34", stubs=UUID)
h("gen_mem_csrrw", "ob_gen", ["C01"], symbolic="node fields", desc="gen_memory_value of csrrw/s/c", bounds="unwind 34", stubs=UUID)
h("gen_mem_csrrwi", "ob_gen", ["C01"], symbolic="node fields", desc="gen_memory_value of csrrwi/si/ci", bounds="unwind 34", stubs=UUID)
for k in ("arith", "load", "jal"):
    h("gen_mem_none_" + k, "ob_gen", ["C01"], tier="thorough", symbolic="node fields",
      desc="no memory fact from a %s node" % k, bounds="unwind 34", stubs=UUID)
# (gen_seeding - RegisterSet::into_available_values - needs unwind 34 for the set iterator, which makes every loop over
# the Vec-backed map unroll 34 times: symbolic execution does not finish in 300 s.  Seeding is RegisterSetIter (C14,
# regs_set_iter) composed with a one-line closure; not registered.)
# (gen_meet / gen_kill_step - AvailableValueMap &= and -= on two keys with symbolic presence - were built and measured:
# symbolic execution finishes in 40 s but the formula is not decided in 900 s / 40 GB; writes to a Vec of 150-byte fact
# values at symbolic positions.  Not registered; the two operators are three lines each over the std container.)

# C01.c: rewrite rules (catalogue of roles x variants)
_rules = _json.load(open(_os.path.join(_os.path.dirname(_os.path.abspath(__file__)), "..", "kani", "catalogue", "rules_cases.json")))
OPC = ["riscv_analysis::cfg::MathOp::operate -> RV32IM reference for the 10 operators without multiplier/divider (contract stub; "
       "operate itself is decided for all operands by fold_* and E2)"]
for c in _rules:
    h(c["name"], "gen_rules", ["C01", "C06"] if c["name"] == "rule_offsets_np" else ["C01"], tier=c["tier"], symbolic=c["symbolic"], desc=c["desc"],
      bounds="concrete register roles (catalogue), <= 3 facts per map, unwind 9",
      stubs=UUID, mem=26 if c["name"].startswith(("rule_from_", "rule_expand_")) else 12,
      cap=1200 if c["name"].startswith("rule_from_") else 900)

# ---------------------------------------------------------------------------
# C06: abs() in message formatting; C18.a ordering; C19 dump values
FMT = ["core::fmt::Formatter::write_fmt -> Ok(()) (the write! inside a Display::fmt body; its argument expressions are still evaluated)"]
h("abs_memloc_fmt", "ob_misc", ["C06"], symbolic="offset:i32", desc="Display for MemoryLocation::StackOffset(o) never panics (o.abs())", bounds="none", stubs=FMT)
# (abs_lint_fmt - Display of LintError::InvalidStackPosition/InvalidStackOffsetUsage(node, i32) - was built and measured:
# not decided in 1500 s (the value carries a whole ParserNode).  Not registered; the same i.abs() -> unsigned_abs() repair
# was made there by reading, see DESIGN.md section 5.)
h("abs_memloc_ser", "ob_misc", ["C06", "C19"], symbolic="offset:i32", desc="Serialize for MemoryLocation::StackOffset(o) never panics (o.abs())", bounds="none",
  stubs=["alloc::fmt::format -> empty String (arguments still evaluated)"])
h("serde_fact_injective", "ob_misc", ["C19"], symbolic="two facts: variant (9), i32, u32 csr, register, label (2)",
  desc="record(a) == record(b) => a == b under a recording Serializer that keeps variant names and scalar values", bounds="labels from a 2-entry set; unwind 8")
h("serde_scalar_records", "ob_misc", ["C19"], symbolic="register, i32, u32", desc="Register / Imm / CsrImm serialize to their number", bounds="none")
# (serde_regset_roundtrip / serde_regset_single - RegisterSet's Serialize/Deserialize, which go through the set iterator,
# itertools::sorted and a Vec - were built and measured: neither is decided in 1500 s even for one- and two-element sets.
# Not registered; the iterator itself is C14's regs_set_iter.)
h("diag_cmp_order", "ob_misc", ["C18"], symbolic="3 items: file (2 values), start/end raw offsets",
  desc="DiagnosticItem::cmp is a total order consistent with ==, and position order within a file", bounds="3 items")
h("diag_sort_three", "ob_misc", ["C18"], symbolic="3 items: file (2 values), raw offset",
  desc="Vec<DiagnosticItem>::sort() leaves each file's items in position order", bounds="3 items, unwind 20")
prop("C18", outside="agreement between pretty/compact/JSON/RVParser::run (four copies of the pipeline behind the CLI and the file "
     "system), where sort() is called, JSON well-formedness, titles/severities, caret rendering",
     assumptions=COMMON_ASSUME)
prop("C19", outside="MemoryLocation strings (format!-based), AvailableValueMap (BTreeMap collection), the CFG-level dump, "
     "edges/functions, YAML syntax (serde_yaml)",
     assumptions=COMMON_ASSUME + ["the recording Serializer keeps exactly what a self-describing format keeps: variant name, scalar value, sequence elements, strings"])

# ---------------------------------------------------------------------------
# (A token-range harness - real Lexer::next() on a concrete statement behind four symbolic layout characters drawn from
# newline/space/tab - was built and measured: all five statements hit the 900 s cap; one symbolic character in front of
# Lexer::next is already too much, as in the design-phase probe.  Not registered.)

# ---------------------------------------------------------------------------
# C01 (and C06): engine E4 - the facts of whole programs are inductive invariants
E4_FAMILIES = [
    ("hand", "26 hand-written programs: save/restore, constant chains, sp arithmetic, joins, loops, calls, byte accesses, x0 writes, ecall results"),
    ("seq1", "every 1-instruction body over the 14-instruction alphabet"), ("seq2", "every 2-instruction body (196)"),
    ("seq3", "every 3-instruction body (2744)"),
    ("diamond", "branch diamond with every choice of (then, else, join) instruction (2744)"),
    ("skip", "conditionally skipped instruction followed by every instruction and a reload (196)"),
    ("loop", "loop with every choice of (pre-header, body, exit) instruction (2744)"),
    ("call", "call between every pair of instructions (196)"),
    ("arith", "every 3-instruction body over a 14-instruction arithmetic alphabet: constants, lui, mul/mulhu/div/rem, division by zero, shifts by large amounts, x0-sourced compares, la/lw (2744; thorough: 4 instructions, 38416)"),
    ("ecall", "environment calls with a known service number between every (before, after) pair of argument/result uses, and an Exit2 arm, incl. constants the tool's table does not list (228)"),
    ("csr", "every 3-instruction body over an 8-instruction CSR alphabet (512)"),
    ("csr2", "every 3-instruction body over 9 read/write/set/clear instructions on one CSR (729; thorough: 4 instructions, 6561)"),
    ("callret", "argument and return-value traffic across a call: every (before, after) pair in the caller x every 2-instruction callee body over 7 instructions (1470; thorough: 3-instruction callee bodies, 10290)"),
    ("handler", "interrupt handlers (registered through utvec): every 3-instruction body over 11 spill/reload/CSR instructions between the two uscratch swaps (1247; thorough: 4 instructions)"),
    ("cfg", "control-flow shapes: three slots between three labels, each a branch / jump / call / exit or print ecall / plain instruction, 12^3 (1728)"),
    ("br0", "every branch mnemonic and pseudo-branch x every operand coincidence (two registers, x0 on either side, same register, x0 twice), forwards and backwards (116)"),
    ("extreme", "every 3-instruction body over 12 instructions with extreme immediates and stack positions (i32 edges in offsets, sp moved by +-2^31) (1728)"),
    ("nest", "a conditional inside a loop: every choice of (pre-header, loop head, conditional arm, after the join) over a 7-instruction stack alphabet (2401; thorough: plus the exit instruction, 16807)"),
    ("mix", "every (stack, arithmetic, stack) instruction triple from the two alphabets (2744)"),
    ("fp", "a function keeping a frame pointer, with every pair of instructions from the stack alphabet plus sp moves in between (324)"),
    ("func", "every function body of 1-3 instructions over a 10-instruction save/restore alphabet, between the frame push and pop (1110; thorough: 1-4, 11110)"),
]
for fam, d in E4_FAMILIES:
    side("e4_" + fam, "e4", ["C01", "C06"], symbolic="entry register file, current register file (31 x BitVec 32 each), memory (Array BitVec32 BitVec32), havoc values",
         desc="E4: %s - every value fact the REAL pipeline attaches is an inductive invariant (entry, transfer and edge VCs) for all machine states" % d,
         bounds="program family enumerated exhaustively; word-granular memory; calls havoc caller-saved+ra", family=fam)
side("e4_seq4", "e4", ["C01", "C06"], tier="thorough", symbolic="as above", desc="E4: every 4-instruction body over the alphabet (38416 programs)",
     bounds="exhaustive", family="seq4")

# ---------------------------------------------------------------------------
# C13 (decode level): spelling rewrites of the catalogue statements, decided by E3 like the base texts
import re as _re
_ABI = ["zero", "ra", "sp", "gp", "tp", "t0", "t1", "t2", "s0", "s1", "a0", "a1", "a2", "a3", "a4", "a5", "a6", "a7",
        "s2", "s3", "s4", "s5", "s6", "s7", "s8", "s9", "s10", "s11", "t3", "t4", "t5", "t6"]
_SWAP = {}
for _i, _n in enumerate(_ABI):
    _SWAP[_n] = "x%d" % _i
    _SWAP["x%d" % _i] = _n
_SWAP["fp"] = "x8"


def _swap_regs(text):
    return _re.sub(r"(?<![\w'])(x\d+|zero|ra|sp|gp|tp|fp|[tsa]\d+)(?![\w'])", lambda m: _SWAP.get(m.group(1), m.group(1)), text)


def _radix(text):
    def conv(m):
        n = int(m.group(2))
        return m.group(1) + ("-0x%x" % -n if n < 0 else "0x%x" % n)
    # a decimal literal standing alone as an operand (after a space/comma, before end, comma, space or parenthesis)
    return _re.sub(r"([ ,])(-?\d+)(?=$|[ ,(])", conv, text)


def spelling_variants(text):
    first, _, rest = text.partition(" ")
    out = {
        "spaces": "\t  " + text.replace(", ", " ,\t ").replace(" ", "  "),
        "nocomma": text.replace(",", " "),
        "upper": first.upper() + (" " + rest if rest else ""),
        "regs": _swap_regs(text),
        "comment": text + " # note",
        "radix": _radix(text),
    }
    if " 0(" in text:
        out["zerooff"] = text.replace(" 0(", " (")
    return {k: v for k, v in out.items() if v != text}


for c in _cases:
    for vname, vtext in spelling_variants(c["text"]).items():
        vc = dict(c, name=c["name"] + "__" + vname, text=vtext)
        side("e3_" + vc["name"], "e3", ["C13"], tier="quick",
             symbolic="31 register contents, pc, loaded words, label address: (_ BitVec 32)",
             desc="spelling '%s' of '%s' (rewrite: %s), parsed natively by the real Lexer + ParserNode::try_from, has the effect of %s for all register contents" % (
                 vtext.replace("\t", "<tab>"), c["text"], vname, "; ".join(e["k"] for e in c["expected"])),
             bounds="concrete text (catalogue x rewrite); <= 2 instructions", case=vc)
TEXT_CASES = TEXT_CASES + [h_["case"] for h_ in HARNESSES if h_.get("engine") == "e3" and "__" in h_["name"]]
for n in (2, 3, 4):
    pass
for x in HARNESSES:
    if x["name"].startswith("regs_from_str") or x["name"].startswith(("imm_hex8", "imm_bin16", "imm_dec10_window")):
        x["props"] = [p_ for p_ in x["props"] if p_ != "C13x"] + ["C13"]
prop("C13",
     outside="blank lines, comments on their own line, labels on their own line or in front of a statement, several statements per "
             "line, anything after decoding (CFG, analyses, lints) and the token ranges diagnostics are attached to; statements "
             "outside the catalogue",
     assumptions=COMMON_ASSUME + ["the diagnostics depend on a statement only through the decoded node(s) (true by reading, not checked)"])

# (lextok_unicode_escape - real Lexer::next() on a string literal whose \uXXXX escape has four symbolic hex digits - was
# built and measured: 1500 s cap reached.  Together with the four-symbolic-layout-characters attempt this closes the
# token level for C09: nothing that makes Lexer::next see a symbolic character fits.)

# ---------------------------------------------------------------------------
# C03 (coverage and justification of edges): engine E6 on the same program families
for fam, d in E4_FAMILIES:
    side("e6_" + fam, "e6", ["C03"], symbolic="register file (31 x BitVec 32)",
         desc="E6: %s - for every reachable instruction node and all register contents the architectural next pc inside the function "
              "(fall-through, taken/untaken branch, jump, return point of a call, continuation of a non-exit ecall) is the address of a "
              "successor; successor/predecessor relations are inverse; every edge is a fall-through, the written label or a return merged "
              "into the function's exit; no edge leaves an exit ecall" % d,
         bounds="program family enumerated exhaustively; instruction k at address 4k", family=fam)
side("e6_seq4", "e6", ["C03"], tier="thorough", symbolic="as above", desc="E6: every 4-instruction body over the alphabet", bounds="exhaustive", family="seq4")
prop("C03",
     outside="the unreachable-code diagnostic (a lint); indirect jumps (jalr other than ret); fall-through from one function into another and "
             "running off the end of the text; programs outside the enumerated families; Cfg::new / NodeDirectionPass / EcallTerminationPass / "
             "EliminateDeadCodeDirectionsPass as code (only seen through the finished graph)",
     assumptions=["z3 4.8.12", "instruction k of the program (in CFG iteration order) sits at address 4k; a label is the address of the instruction it is attached to",
                  "an ecall's service number is the constant loaded by the preceding `li a7, N` (otherwise: some execution continues)",
                  "a call returns to the instruction after it (callees respect the convention)",
                  "only nodes reachable along the graph's own edges from an entry are examined (the first missing edge on a real path starts at such a node)"])

# ---------------------------------------------------------------------------
# C02 (soundness clause only): engine E5 - liveness as non-interference on the program families (modular across calls)
for fam, d in E4_FAMILIES:
    side("e5_" + fam, "e5", ["C02", "C06"], symbolic="two register files (31 x BitVec 32 each), shared memory (Array), shared CSR file, havoc values",
         desc="E5: %s - two runs that agree on live_in(n) have the same observable behaviour at n and agree on live_out(n), for all machine states; live_in(succ) is a subset of live_out(n); a call reads its callee's inferred argument registers and clobbers t0-t6/a0-a7/ra, a return hands back the callee-saved registers and the return registers some call site reads" % d,
         bounds="program family enumerated exhaustively; word-granular memory", family=fam)
side("e5_seq4", "e5", ["C02", "C06"], tier="thorough", symbolic="as above", desc="E5: every 4-instruction body over the alphabet",
     bounds="exhaustive", family="seq4")
prop("C02",
     outside="the 'least solution' clause (nothing beyond what the equations force; 'exactly' in the return-register clause and 'only' in the "
             "unused-value clause); environment calls whose number is not a constant loaded immediately before; recursion and indirect calls; "
             "programs outside the enumerated families; LivenessPass::run as code (only seen through its output); the lints that consume the sets",
     assumptions=["z3 4.8.12", "the RV32IM reference semantics in mir2smt/e2.py/e4.py", "memory is always considered live (both runs share one memory; "
                  "stores must store equal values at equal addresses)", "the CFG edges over-approximate real control flow (C03, not checked)",
                  "calling convention as the property says: a call / ecall clobbers t0-t6 and a0-a7 (a call also ra), a callee reads at most its "
                  "argument registers and preserves sp and s0-s11, the caller may read those and a0/a1 after the return",
                  "an ecall's service number is the constant loaded by the preceding `li a7, N`"])
