#!/bin/bash
# Build everything the checks need, offline, from files on disk only.
# (Checks rebuild what depends on /repo themselves; this only warms the caches.)
set -e
cd "$(dirname "$0")"
export CARGO_NET_OFFLINE=true
mkdir -p .work evidence
rsync -a --delete --exclude target kani/ .work/src_k/
# one Kani target dir per worker: dependencies compile once per dir
for i in $(seq 0 15); do
  ( cd .work/src_k && RUSTFLAGS="--cfg rva_verif" cargo kani --target-dir ../k$i --harness ob_fold::proofs::fold_and --exact > ../setup.k$i.log 2>&1 || true ) &
done
# native helpers (replay of counterexamples, E2/E3 companions), dev and release
( cd kani && RUSTFLAGS="--cfg rva_verif" cargo build --bins --target-dir ../.work/native > ../.work/setup.native.log 2>&1 \
  && RUSTFLAGS="--cfg rva_verif" cargo build --release --bins --target-dir ../.work/native >> ../.work/setup.native.log 2>&1 ) &
wait
# MIR dumps for E2 need the nightly toolchain's build of the dependencies
python3 - <<'PY' || true
import sys
sys.path.insert(0, "mir2smt")
import e2
for p in ("dev", "release"):
    e2.dump_mir(p)
PY
echo "kani workers warmed: $(grep -l 'VERIFICATION:- SUCCESSFUL' .work/setup.k*.log | wc -l)/16"
test -x .work/native/debug/replay && test -x .work/native/release/replay && echo "native helpers built"
echo setup done
