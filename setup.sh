#!/bin/bash
# Build everything the checks need, offline, from files on disk.
set -e
cd "$(dirname "$0")"
export CARGO_NET_OFFLINE=true
mkdir -p .work
# warm one Kani target dir per worker (dependencies compile once per dir)
for i in $(seq 0 15); do
  ( cd kani && RUSTFLAGS="--cfg rva_verif" cargo kani --target-dir ../.work/k$i --harness ob_fold::proofs::fold_and --exact > ../.work/setup.k$i.log 2>&1 || true ) &
done
wait
( cd kani && RUSTFLAGS="--cfg rva_verif" cargo build --bin replay --target-dir ../.work/native > ../.work/setup.native.log 2>&1 )
( cd kani && RUSTFLAGS="--cfg rva_verif" cargo build --release --bin replay --target-dir ../.work/native >> ../.work/setup.native.log 2>&1 )
grep -l "VERIFICATION:- SUCCESSFUL" .work/setup.k*.log | wc -l
echo setup done
