#!/usr/bin/env python3
"""Catalogue of assembly text forms for C08.b/c (decode + pseudo-expansion).

Each entry: (tier, text, expected) where `expected` is the list of RV32IM
instructions the RISC-V assembly manual (and, for the RARS-specific operand
forms the parser accepts, the RARS pseudo-op table) assigns to that text.
Running this script regenerates ../src/gen_text.rs and text_cases.json.
"""
import json
import os

ABI = {"zero": 0, "ra": 1, "sp": 2, "gp": 3, "tp": 4, "t0": 5, "t1": 6, "t2": 7, "s0": 8, "fp": 8, "s1": 9,
       "a0": 10, "a1": 11, "a2": 12, "a3": 13, "a4": 14, "a5": 15, "a6": 16, "a7": 17}
for i in range(2, 12):
    ABI["s%d" % i] = 16 + i
for i in range(3, 7):
    ABI["t%d" % i] = 25 + i
for i in range(32):
    ABI["x%d" % i] = i


def R(name):
    return ABI[name]


def alu(op, rd, rs1, rs2):
    return {"k": "Alu", "op": op, "rd": R(rd), "rs1": R(rs1), "rs2": R(rs2)}


def alui(op, rd, rs1, imm):
    return {"k": "AluImm", "op": op, "rd": R(rd), "rs1": R(rs1), "imm": imm}


def const(rd, value):
    return {"k": "Const", "rd": R(rd), "value": value}


def jal(rd):
    return {"k": "Jal", "rd": R(rd)}


def jalr(rd, rs1, imm):
    return {"k": "Jalr", "rd": R(rd), "rs1": R(rs1), "imm": imm}


def br(cond, rs1, rs2):
    return {"k": "Branch", "cond": cond, "rs1": R(rs1), "rs2": R(rs2)}


def load(w, signed, rd, rs1, imm):
    return {"k": "Load", "width": w, "signed": bool(signed), "rd": R(rd), "rs1": R(rs1), "imm": imm}


def store(w, rs1, rs2, imm):
    return {"k": "Store", "width": w, "rs1": R(rs1), "rs2": R(rs2), "imm": imm}


def csr(op, rd, num, rs1):
    return {"k": "Csr", "op": op, "rd": R(rd), "csr": num, "rs1": R(rs1)}


def csri(op, rd, num, uimm):
    return {"k": "CsrImm", "op": op, "rd": R(rd), "csr": num, "uimm": uimm}


SYSTEM = {"k": "System"}
LA = "LA_ADDR"

E = []  # (tier, name, text, [expected], label or None, note)


def add(tier, name, text, expected, label=None):
    E.append((tier, name, text, expected, label))


# --- R-type: every mnemonic, varied registers (aliasing, x0, class boundaries)
RTYPE = [("add", "Add"), ("sub", "Sub"), ("and", "And"), ("or", "Or"), ("xor", "Xor"), ("sll", "Sll"),
         ("srl", "Srl"), ("sra", "Sra"), ("slt", "Slt"), ("sltu", "Sltu"), ("mul", "Mul"), ("mulh", "Mulh"),
         ("mulhsu", "Mulhsu"), ("mulhu", "Mulhu"), ("div", "Div"), ("divu", "Divu"), ("rem", "Rem"),
         ("remu", "Remu")]
REGSETS = [("t0", "t1", "t2"), ("s11", "a7", "t6"), ("x5", "x5", "x31"), ("a0", "zero", "s0"), ("ra", "sp", "gp"),
           ("x0", "tp", "fp")]
for i, (m, op) in enumerate(RTYPE):
    rd, rs1, rs2 = REGSETS[i % len(REGSETS)]
    add("quick" if i % 3 == 0 else "thorough", "r_" + m, "%s %s, %s, %s" % (m, rd, rs1, rs2), [alu(op, rd, rs1, rs2)])
add("thorough", "r_sub_nocomma", "sub a0 a1 a2", [alu("Sub", "a0", "a1", "a2")])
add("thorough", "r_add_upper", "ADD T0, T1, T2", None)  # register names are case-sensitive: must not parse
E.pop()  # (kept out: rejecting upper-case registers is not something the manual settles)

# --- I-type
ITYPE = [("addi", "Add"), ("andi", "And"), ("ori", "Or"), ("xori", "Xor"), ("slti", "Slt"), ("sltiu", "Sltu")]
IMMS = [("0", 0), ("-1", -1), ("2047", 2047), ("-2048", -2048), ("0x7ff", 2047), ("0b101", 5)]
for i, (m, op) in enumerate(ITYPE):
    txt, val = IMMS[i % len(IMMS)]
    rd, rs1, _ = REGSETS[(i + 1) % len(REGSETS)]
    add("quick" if i % 2 == 0 else "thorough", "i_" + m, "%s %s, %s, %s" % (m, rd, rs1, txt), [alui(op, rd, rs1, val)])
add("thorough", "i_addi_sp", "addi sp, sp, -16", [alui("Add", "sp", "sp", -16)])
add("thorough", "i_addi_char", "addi a0, zero, 'A'", [alui("Add", "a0", "zero", 65)])
for i, (m, op) in enumerate([("slli", "Sll"), ("srli", "Srl"), ("srai", "Sra")]):
    for j, sh in enumerate((0, 31, 7)):
        add("quick" if j == 1 and i == 0 else "thorough", "i_%s_%d" % (m, sh), "%s t%d, s%d, %d" % (m, i, j + 2, sh),
            [alui(op, "t%d" % i, "s%d" % (j + 2), sh)])
# lui: upper immediate placed in bits 31..12
add("quick", "u_lui_1", "lui t0, 1", [const("t0", "0x1000")])
add("thorough", "u_lui_max", "lui a5, 0xfffff", [const("a5", "0xfffff000")])
add("thorough", "u_lui_mid", "lui s1, 0x12345", [const("s1", "0x12345000")])

# --- loads / stores, every operand form the parser has a branch for
LOADS = [("lb", "B", True), ("lbu", "B", False), ("lh", "H", True), ("lhu", "H", False), ("lw", "W", True)]
for i, (m, w, sg) in enumerate(LOADS):
    add("quick" if m in ("lw", "lbu") else "thorough", "l_%s_off" % m, "%s a0, -4(sp)" % m, [load(w, sg, "a0", "sp", -4)])
    add("thorough", "l_%s_paren" % m, "%s t1, (s0)" % m, [load(w, sg, "t1", "s0", 0)])
    add("thorough", "l_%s_abs" % m, "%s t2, 0x40" % m, [load(w, sg, "t2", "zero", 64)])
    add("quick" if m == "lw" else "thorough", "l_%s_label" % m, "%s s3, data" % m,
        [const("s3", LA), load(w, sg, "s3", "s3", 0)], "data")
add("thorough", "l_lw_pos", "lw ra, 2047(sp)", [load("W", True, "ra", "sp", 2047)])
add("thorough", "l_lw_spaced", "lw x10, 10 ( x11 )", [load("W", True, "a0", "a1", 10)])
STORES = [("sb", "B"), ("sh", "H"), ("sw", "W")]
for m, w in STORES:
    add("quick" if m == "sw" else "thorough", "s_%s_off" % m, "%s ra, 12(sp)" % m, [store(w, "sp", "ra", 12)])
    add("thorough", "s_%s_paren" % m, "%s a1, (t3)" % m, [store(w, "t3", "a1", 0)])
    add("thorough", "s_%s_abs" % m, "%s a2, -8" % m, [store(w, "zero", "a2", -8)])
    add("quick" if m == "sb" else "thorough", "s_%s_immtmp" % m, "%s a3, 1024, t4" % m,
        [alui("Add", "t4", "zero", 1024), store(w, "t4", "a3", 0)])
    add("thorough", "s_%s_label" % m, "%s a4, data, t5" % m, [const("t5", LA), store(w, "t5", "a4", 0)], "data")
add("thorough", "s_sw_neg", "sw s0, -2048(sp)", [store("W", "sp", "s0", -2048)])

# --- branches
BR = [("beq", "Eq"), ("bne", "Ne"), ("blt", "Lt"), ("bge", "Ge"), ("bltu", "Ltu"), ("bgeu", "Geu")]
for i, (m, c) in enumerate(BR):
    rs1, rs2 = [("t0", "t1"), ("a0", "zero"), ("zero", "s5"), ("s11", "s11"), ("x6", "x7"), ("sp", "ra")][i]
    add("quick" if i % 2 == 0 else "thorough", "b_" + m, "%s %s, %s, loop" % (m, rs1, rs2), [br(c, rs1, rs2)], "loop")

# --- jal / jalr forms
add("quick", "j_jal_label", "jal func", [jal("ra")], "func")
add("quick", "j_jal_rd_label", "jal t0, func", [jal("t0")], "func")
add("thorough", "j_jal_zero_label", "jal zero, func", [jal("zero")], "func")
add("quick", "j_jalr_rs", "jalr t1", [jalr("ra", "t1", 0)])
add("thorough", "j_jalr_rd_rs_imm", "jalr t0, t1, 8", [jalr("t0", "t1", 8)])
add("quick", "j_jalr_rd_off_rs", "jalr zero, -4(a0)", [jalr("zero", "a0", -4)])
add("thorough", "j_jalr_rs_imm", "jalr t2, 16", [jalr("ra", "t2", 16)])
add("thorough", "j_jalr_rd_paren", "jalr s1, (s2)", [jalr("s1", "s2", 0)])
add("thorough", "j_jalr_ret_spelled", "jalr zero, 0(ra)", [jalr("zero", "ra", 0)])

# --- system
add("thorough", "sys_ecall", "ecall", [SYSTEM])
add("thorough", "sys_ebreak", "ebreak", [SYSTEM])
add("thorough", "sys_uret", "uret", [SYSTEM])

# --- CSR (register and immediate forms; named and numeric CSRs)
CSRN = {"ustatus": 0x000, "uie": 0x004, "utvec": 0x005, "uscratch": 0x040, "uepc": 0x041, "ucause": 0x042,
        "utval": 0x043, "uip": 0x044, "cycle": 0xC00, "time": 0xC01, "instret": 0xC02, "cycleh": 0xC80,
        "timeh": 0xC81, "instreth": 0xC82, "fflags": 1, "frm": 2, "fcsr": 3}
for i, (m, op) in enumerate([("csrrw", "Rw"), ("csrrs", "Rs"), ("csrrc", "Rc")]):
    name = ["uscratch", "utvec", "cycle"][i]
    add("quick" if i == 0 else "thorough", "c_" + m, "%s t0, %s, t1" % (m, name), [csr(op, "t0", CSRN[name], "t1")])
    add("thorough", "c_%s_num" % m, "%s a0, 0x%x, zero" % (m, 0x41 + i), [csr(op, "a0", 0x41 + i, "zero")])
for i, (m, op) in enumerate([("csrrwi", "Rw"), ("csrrsi", "Rs"), ("csrrci", "Rc")]):
    name = ["ustatus", "uie", "uip"][i]
    add("quick" if i == 0 else "thorough", "c_" + m, "%s t2, %s, %d" % (m, name, 1 + i), [csri(op, "t2", CSRN[name], 1 + i)])
for i, name in enumerate(sorted(CSRN)):
    add("thorough", "c_name_" + name, "csrrs a%d, %s, zero" % (i % 8, name), [csr("Rs", "a%d" % (i % 8), CSRN[name], "zero")])

# --- pseudo-instructions: official expansions (RISC-V ASM manual, "pseudoinstructions" table)
add("quick", "p_nop", "nop", [alui("Add", "zero", "zero", 0)])
add("quick", "p_ret", "ret", [jalr("zero", "ra", 0)])
add("quick", "p_mv", "mv a0, s1", [alui("Add", "a0", "s1", 0)])
add("quick", "p_li_small", "li a7, 10", [const("a7", "10")])
add("thorough", "p_li_neg", "li t0, -1", [const("t0", "0xffffffff")])
add("thorough", "p_li_big", "li t1, 0x7fffffff", [const("t1", "0x7fffffff")])
add("thorough", "p_li_hexneg", "li t2, 0xFFFFFFFF", [const("t2", "0xffffffff")])
add("thorough", "p_li_min", "li t3, -2147483648", [const("t3", "0x80000000")])
add("thorough", "p_li_char", "li a0, '0'", [const("a0", "48")])
add("quick", "p_la", "la a0, data", [const("a0", LA)], "data")
add("quick", "p_j", "j loop", [jal("zero")], "loop")
add("thorough", "p_b", "b loop", [jal("zero")], "loop")
add("quick", "p_jr", "jr t0", [jalr("zero", "t0", 0)])
add("quick", "p_call", "call func", [jal("ra")], "func")
add("quick", "p_not", "not t0, t1", [alui("Xor", "t0", "t1", -1)])
add("quick", "p_neg", "neg s0, s1", [alu("Sub", "s0", "zero", "s1")])
add("quick", "p_seqz", "seqz a0, a1", [alui("Sltu", "a0", "a1", 1)])
add("quick", "p_snez", "snez a2, a3", [alu("Sltu", "a2", "zero", "a3")])
add("quick", "p_sltz", "sltz t4, t5", [alu("Slt", "t4", "t5", "zero")])
add("quick", "p_sgtz", "sgtz t6, s11", [alu("Slt", "t6", "zero", "s11")])
add("quick", "p_beqz", "beqz a0, loop", [br("Eq", "a0", "zero")], "loop")
add("quick", "p_bnez", "bnez a1, loop", [br("Ne", "a1", "zero")], "loop")
add("quick", "p_blez", "blez t0, loop", [br("Ge", "zero", "t0")], "loop")
add("quick", "p_bgez", "bgez t1, loop", [br("Ge", "t1", "zero")], "loop")
add("quick", "p_bltz", "bltz t2, loop", [br("Lt", "t2", "zero")], "loop")
add("quick", "p_bgtz", "bgtz s2, loop", [br("Lt", "zero", "s2")], "loop")
add("quick", "p_bgt", "bgt a0, a1, loop", [br("Lt", "a1", "a0")], "loop")
add("quick", "p_ble", "ble s3, s4, loop", [br("Ge", "s4", "s3")], "loop")
add("quick", "p_bgtu", "bgtu t0, t6, loop", [br("Ltu", "t6", "t0")], "loop")
add("quick", "p_bleu", "bleu a6, a7, loop", [br("Geu", "a7", "a6")], "loop")
# CSR pseudo-instructions in the (RARS) operand order the parser accepts
add("quick", "p_csrr", "csrr t0, ucause", [csr("Rs", "t0", 0x42, "zero")])
add("quick", "p_csrw", "csrw t1, uscratch", [csr("Rw", "zero", 0x40, "t1")])
add("thorough", "p_csrs", "csrs t2, ustatus", [csr("Rs", "zero", 0x0, "t2")])
add("thorough", "p_csrc", "csrc a0, uie", [csr("Rc", "zero", 0x4, "a0")])
add("quick", "p_csrwi", "csrwi ustatus, 1", [csri("Rw", "zero", 0x0, 1)])
add("thorough", "p_csrsi", "csrsi uie, 16", [csri("Rs", "zero", 0x4, 16)])
add("thorough", "p_csrci", "csrci uip, 31", [csri("Rc", "zero", 0x44, 31)])
# spelling variants of mnemonics (case folding)
add("thorough", "v_upper_mnemonic", "ADDI t0, t1, 5", [alui("Add", "t0", "t1", 5)])
add("thorough", "v_mixed_mnemonic", "Lw a0, 0(sp)", [load("W", True, "a0", "sp", 0)])
add("thorough", "v_numeric_regs", "add x28, x29, x30", [alu("Add", "t3", "t4", "t5")])
add("thorough", "v_fp_alias", "mv fp, sp", [alui("Add", "s0", "sp", 0)])


def main():
    here = os.path.dirname(os.path.abspath(__file__))
    names = set()
    cases = []
    for tier, name, text, expected, label in E:
        assert name not in names, name
        names.add(name)
        for e in expected:
            if e.get("k") == "Const" and isinstance(e["value"], str) and e["value"] != LA:
                e["value"] = int(e["value"], 0)
        cases.append({"name": "text_" + name, "tier": tier, "text": text, "expected": expected, "label": label,
                      "pseudo": name.startswith("p_")})
    json.dump(cases, open(os.path.join(here, "text_cases.json"), "w"), indent=1)
    print("%d text cases (%d quick)" % (len(cases), len([c for c in cases if c["tier"] == "quick"])))


if __name__ == "__main__":
    main()
