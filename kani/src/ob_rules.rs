//! C01.c: one inductive step of each rewrite rule of the value analysis.
//!
//! In-maps hold facts of catalogue-chosen variants on CONCRETE register roles
//! with SYMBOLIC i32 payloads; the machine state (entry registers E, current
//! registers R, the memory word involved) is arbitrary subject to gamma(in-maps);
//! the REAL rule (reached through the `verif_hooks` wrappers) is applied to a
//! real node; the node is stepped with `rvref`; every entry the rule wrote must
//! be true (gamma) in the post-state.

use crate::mk;
use crate::ob_gen::{draw_rf, gamma_reg, load_result, store_result, LA_ADDR};
use crate::rvref::{self, Alu, RInst, RegRead, Width, RF};
use crate::src::Src;
use riscv_analysis::analysis::verif_hooks as rules;
use riscv_analysis::analysis::{AvailableValue, MemoryLocation};
use riscv_analysis::cfg::AvailableValueMap;
use riscv_analysis::parser::{CsrImm, Register};

#[derive(Clone, Copy, PartialEq, Eq)]
pub enum V {
    Absent,
    Const,
    Orig(u8),
    Rws(u8),
    Addr,
    MemOrig(u8),
    InCsr,
}

/// The register a variant mentions (0 if none).
pub fn vreg(v: V) -> u8 {
    match v {
        V::Orig(q) | V::Rws(q) | V::MemOrig(q) => q,
        _ => 0,
    }
}

pub fn mkv(v: V, payload: i32) -> Option<AvailableValue> {
    Some(match v {
        V::Absent => return None,
        V::Const => AvailableValue::Constant(payload),
        V::Orig(q) => AvailableValue::OriginalRegisterWithScalar(mk::reg(q), payload),
        V::Rws(q) => AvailableValue::RegisterWithScalar(mk::reg(q), payload),
        V::Addr => AvailableValue::Address(mk::label("target")),
        V::MemOrig(q) => AvailableValue::MemoryAtOriginalRegister(mk::reg(q), payload),
        V::InCsr => AvailableValue::ValueInCsr(CsrImm::new(payload as u32)),
    })
}

fn assume_gamma<S: Src>(s: &mut S, m: &AvailableValueMap<Register>, entry: &RF, cur: &RF) {
    for (r, v) in m {
        if let Some(ok) = gamma_reg(v, r.to_num(), entry, cur) {
            s.assume(ok);
        }
    }
}

// SAT-hard operators (two multiplier/divider circuits): excluded from the
// symbolic operator choice here; the operator itself is decided by fold_*/E2.
fn hard(op: Alu) -> bool {
    matches!(op, Alu::Mul | Alu::Mulh | Alu::Mulhsu | Alu::Mulhu | Alu::Div | Alu::Divu | Alu::Rem | Alu::Remu)
}

const ARITH_ALU: [Alu; 18] = [
    Alu::Add, Alu::Sub, Alu::And, Alu::Or, Alu::Xor, Alu::Sll, Alu::Srl, Alu::Sra, Alu::Slt,
    Alu::Sltu, Alu::Mul, Alu::Mulh, Alu::Mulhsu, Alu::Mulhu, Alu::Div, Alu::Divu, Alu::Rem, Alu::Remu,
];
const IARITH_ALU: [Alu; 9] = [
    Alu::Add, Alu::And, Alu::Or, Alu::Xor, Alu::Sll, Alu::Srl, Alu::Sra, Alu::Slt, Alu::Sltu,
];

pub struct MathCase {
    /// index into mk::ARITH (register form) or mk::IARITH (immediate form): concrete, because a symbolic
    /// operator makes the formula (5 M variables) too large for the caps
    pub op: u8,
    pub imm_form: bool,
    pub rd: u8,
    pub rs1: u8,
    pub rs2: u8,
    pub lhs: V,
    pub rhs: V,
}

/// rule_perform_math_ops
pub fn rule_math<S: Src>(s: &mut S, c: &MathCase) {
    let opi = c.op as usize;
    let imm = s.i32();
    let (x, y) = (s.i32(), s.i32());
    let (node, ri) = if c.imm_form {
        (
            mk::iarith(mk::IARITH[opi], c.rd, c.rs1, imm),
            RInst::AluImm { op: IARITH_ALU[opi], rd: c.rd, rs1: c.rs1, imm },
        )
    } else {
        s.assume(!hard(ARITH_ALU[opi]));
        (
            mk::arith(mk::ARITH[opi], c.rd, c.rs1, c.rs2),
            RInst::Alu { op: ARITH_ALU[opi], rd: c.rd, rs1: c.rs1, rs2: c.rs2 },
        )
    };
    let mut inm: AvailableValueMap<Register> = AvailableValueMap::new();
    if let Some(v) = mkv(c.lhs, x) {
        inm.insert(mk::reg(c.rs1), v);
    }
    if !c.imm_form {
        if let Some(v) = mkv(c.rhs, y) {
            inm.insert(mk::reg(c.rs2), v);
        }
    }
    let keys = [c.rd, c.rs1, c.rs2, vreg(c.lhs), vreg(c.rhs)];
    let entry = draw_rf(s, &keys);
    let pre = draw_rf(s, &keys);
    assume_gamma(s, &inm, &entry, &pre);

    let mut out: AvailableValueMap<Register> = AvailableValueMap::new();
    rules::rule_perform_math_ops(&node, &mut out, &inm);

    let mut post = pre;
    let written = match ri {
        RInst::Alu { op, rs1, rs2, .. } => rvref::alu_cheap(op, pre.get(rs1), pre.get(rs2)),
        RInst::AluImm { op, rs1, imm, .. } => rvref::alu_cheap(op, pre.get(rs1), imm as u32),
        _ => 0,
    };
    post.set(c.rd, written);
    for (r, v) in &out {
        crate::seen!(true, "I:the rule derived a value");
        assert!(r.to_num() == c.rd, "[C01] rule_perform_math_ops wrote a register the instruction does not write");
        if let Some(ok) = gamma_reg(v, r.to_num(), &entry, &post) {
            assert!(ok, "[C01] rule_perform_math_ops derived a value that is false for some machine state");
        }
    }
    crate::witness!(true, "W:end");
    core::mem::forget((node, inm, out));
}

pub struct ZeroCase {
    pub reg: u8,
    pub regv: V,
    pub memv: V,
}

fn mem_val(v: &AvailableValue, entry: &RF, cur: &RF) -> Option<u32> {
    match v {
        AvailableValue::Constant(c) => Some(*c as u32),
        AvailableValue::OriginalRegisterWithScalar(q, k) => Some(entry.get(q.to_num()).wrapping_add(*k as u32)),
        AvailableValue::RegisterWithScalar(q, k) => Some(cur.get(q.to_num()).wrapping_add(*k as u32)),
        _ => None,
    }
}

/// rule_zero_to_const: a normalisation; every entry it writes must be true in
/// the SAME state in which the in-entry it came from is true.
pub fn rule_zero<S: Src>(s: &mut S, c: &ZeroCase) {
    let (x, y, off) = (s.i32(), s.i32(), s.i32());
    let mut inm: AvailableValueMap<Register> = AvailableValueMap::new();
    if let Some(v) = mkv(c.regv, x) {
        inm.insert(mk::reg(c.reg), v);
    }
    let mut mem_in: AvailableValueMap<MemoryLocation> = AvailableValueMap::new();
    if let Some(v) = mkv(c.memv, y) {
        mem_in.insert(MemoryLocation::StackOffset(off), v);
    }
    let keys = [c.reg, vreg(c.regv), vreg(c.memv), 2];
    let entry = draw_rf(s, &keys);
    let cur = draw_rf(s, &keys);
    let slot = s.u32(); // the word at E[sp] + off
    assume_gamma(s, &inm, &entry, &cur);
    for (_, v) in &mem_in {
        if let Some(w) = mem_val(v, &entry, &cur) {
            s.assume(slot == w);
        }
    }
    // as in the transfer function, the out maps start from the in maps (the instruction
    // overwrites neither the register nor the slot in this obligation)
    let mut out: AvailableValueMap<Register> = AvailableValueMap::new();
    if let Some(v) = mkv(c.regv, x) {
        out.insert(mk::reg(c.reg), v);
    }
    let mut mem_out: AvailableValueMap<MemoryLocation> = AvailableValueMap::new();
    if let Some(v) = mkv(c.memv, y) {
        mem_out.insert(MemoryLocation::StackOffset(off), v);
    }
    rules::rule_zero_to_const(&mut out, &inm, &mut mem_out, &mem_in);
    for (r, v) in &out {
        crate::seen!(matches!(v, AvailableValue::Constant(_)), "I:a register fact was normalised");
        assert!(inm.get(r).is_some(), "[C01] rule_zero_to_const wrote a register it had no fact about");
        if let Some(ok) = gamma_reg(v, r.to_num(), &entry, &cur) {
            assert!(ok, "[C01] rule_zero_to_const changed the meaning of a register fact");
        }
    }
    for (l, v) in &mem_out {
        crate::seen!(true, "I:a stack fact was normalised");
        assert!(*l == MemoryLocation::StackOffset(off), "[C01] rule_zero_to_const wrote a different memory location");
        if let Some(w) = mem_val(v, &entry, &cur) {
            assert!(w == slot, "[C01] rule_zero_to_const changed the meaning of a stack fact");
        }
    }
    crate::witness!(true, "W:end");
    core::mem::forget((inm, mem_in, out, mem_out));
}

pub struct LoadCase {
    pub rd: u8,
    pub base: u8,
    pub basev: V,
    /// stack fact present at the loaded slot
    pub slotv: V,
}

/// rule_expand_address_for_load: names the memory word a load reads.
pub fn rule_expand<S: Src>(s: &mut S, c: &LoadCase) {
    let wi = s.choice(5) as usize;
    let (imm, off) = (s.i32(), s.i32());
    let node = mk::load(mk::LOAD[wi], c.rd, c.base, imm);
    let (width, signed) = [(Width::B, true), (Width::B, false), (Width::H, true), (Width::H, false), (Width::W, true)][wi];
    let mut inm: AvailableValueMap<Register> = AvailableValueMap::new();
    if let Some(v) = mkv(c.basev, off) {
        inm.insert(mk::reg(c.base), v);
    }
    let keys = [c.rd, c.base, vreg(c.basev), 2];
    let entry = draw_rf(s, &keys);
    let pre = draw_rf(s, &keys);
    let word = s.u32(); // the 32-bit word at the load address
    assume_gamma(s, &inm, &entry, &pre);
    let addr = pre.get(c.base).wrapping_add(imm as u32);
    let mut out: AvailableValueMap<Register> = AvailableValueMap::new();
    rules::rule_expand_address_for_load(&node, &mut out, &inm);
    let mut post = pre;
    post.set(c.rd, load_result(width, signed, word));
    for (r, v) in &out {
        crate::seen!(true, "I:expand_address named the loaded word");
        assert!(r.to_num() == c.rd, "[C01] rule_expand_address_for_load wrote a register the load does not write");
        if let AvailableValue::MemoryAtOriginalRegister(q, o) = v {
            assert!(
                entry.get(q.to_num()).wrapping_add(*o as u32) == addr,
                "[C01] rule_expand_address_for_load names a different address than the load uses"
            );
            assert!(post.get(c.rd) == word || c.rd == 0, "[C01] whole-word memory value claimed for a load that does not deliver the whole word");
        }
    }
    crate::witness!(true, "W:end");
    core::mem::forget((node, inm, out));
}

/// rule_value_from_stack: substitutes what the stack (or a CSR) is known to hold
/// for "the word at sp_entry + off" / "the value of the CSR".
pub fn rule_from_stack<S: Src>(s: &mut S, c: &LoadCase) {
    let (off, y, other_off, z, csrn) = (s.i32(), s.i32(), s.i32(), s.i32(), s.u32());
    let via_csr = c.basev == V::InCsr;
    let node = mk::load(mk::LOAD[4], c.rd, c.base, 0);
    let mut out: AvailableValueMap<Register> = AvailableValueMap::new();
    let mut mem_in: AvailableValueMap<MemoryLocation> = AvailableValueMap::new();
    if via_csr {
        out.insert(mk::reg(c.rd), AvailableValue::ValueInCsr(CsrImm::new(csrn)));
        if let Some(v) = mkv(c.slotv, y) {
            mem_in.insert(MemoryLocation::CsrRegister(CsrImm::new(csrn)), v);
        }
    } else {
        out.insert(mk::reg(c.rd), AvailableValue::MemoryAtOriginalRegister(mk::reg(c.base), off));
        if let Some(v) = mkv(c.slotv, y) {
            mem_in.insert(MemoryLocation::StackOffset(off), v);
        }
    }
    // a second, different slot that must not be confused with the first
    s.assume(other_off != off);
    mem_in.insert(MemoryLocation::StackOffset(other_off), AvailableValue::Constant(z));
    let keys = [c.rd, c.base, vreg(c.slotv), 2];
    let entry = draw_rf(s, &keys);
    let pre = draw_rf(s, &keys);
    // the value the instruction delivers into rd: the word at E[base]+off (or the old CSR content)
    let word = s.u32();
    // gamma(mem_in) in the pre-state: that word / CSR content is what the fact says
    let key = if via_csr { MemoryLocation::CsrRegister(CsrImm::new(csrn)) } else { MemoryLocation::StackOffset(off) };
    if let Some(v) = mem_in.get(&key) {
        if let Some(w) = mem_val(v, &entry, &pre) {
            s.assume(word == w);
        }
    }
    rules::rule_value_from_stack(&node, &mut out, &mem_in);
    let mut post = pre;
    post.set(c.rd, word);
    for (r, v) in &out {
        assert!(r.to_num() == c.rd, "[C01] rule_value_from_stack wrote a register the instruction does not write");
        // a stack fact is only about the stack pointer's frame
        if !via_csr && c.base != 2 {
            assert!(matches!(v, AvailableValue::MemoryAtOriginalRegister(_, _)), "[C01] rule_value_from_stack used a stack fact for memory that is not relative to sp");
        }
        if let Some(ok) = gamma_reg(v, r.to_num(), &entry, &post) {
            // "rd = R[q]+k" read back into q itself (rd == q) describes the value q had BEFORE the load
            if !matches!(v, AvailableValue::RegisterWithScalar(q, _) if q.to_num() == c.rd) {
                crate::seen!(true, "I:value_from_stack produced a claimed kind of value");
                assert!(ok, "[C01] rule_value_from_stack derived a value that is false for some machine state");
            }
        }
    }
    crate::witness!(true, "W:end");
    core::mem::forget((node, mem_in, out));
}

pub struct StackCase {
    pub reg: u8,
    pub regv: V,
}

/// rule_known_values_to_stack: same-state rewrite of "slot holds R[reg]+k".
pub fn rule_to_stack<S: Src>(s: &mut S, c: &StackCase) {
    let (x, k, off) = (s.i32(), s.i32(), s.i32());
    let mut inm: AvailableValueMap<Register> = AvailableValueMap::new();
    if let Some(v) = mkv(c.regv, x) {
        inm.insert(mk::reg(c.reg), v);
    }
    let mut mem: AvailableValueMap<MemoryLocation> = AvailableValueMap::new();
    mem.insert(MemoryLocation::StackOffset(off), AvailableValue::RegisterWithScalar(mk::reg(c.reg), k));
    let keys = [c.reg, vreg(c.regv), 2];
    let entry = draw_rf(s, &keys);
    let cur = draw_rf(s, &keys);
    let slot = s.u32();
    assume_gamma(s, &inm, &entry, &cur);
    s.assume(slot == cur.get(c.reg).wrapping_add(k as u32));
    rules::rule_known_values_to_stack(&mut mem, &inm);
    assert!(mem.len() == 1, "[C01] rule_known_values_to_stack adds or removes stack facts");
    for (l, v) in &mem {
        assert!(*l == MemoryLocation::StackOffset(off), "[C01] rule_known_values_to_stack moved a stack fact");
        crate::seen!(!matches!(v, AvailableValue::RegisterWithScalar(_, _)), "I:stack fact rewritten");
        if let Some(w) = mem_val(v, &entry, &cur) {
            assert!(w == slot, "[C01] rule_known_values_to_stack changed the meaning of a stack fact");
        }
    }
    crate::witness!(true, "W:end");
    core::mem::forget((inm, mem));
}

/// Panic-freedom of the offset additions in the rules (C06): no input assumption.
pub fn rule_offsets_nopanic<S: Src>(s: &mut S) {
    let (x, k, off, imm) = (s.i32(), s.i32(), s.i32(), s.i32());
    let which = s.choice(3);
    let mut inm: AvailableValueMap<Register> = AvailableValueMap::new();
    let mut mem: AvailableValueMap<MemoryLocation> = AvailableValueMap::new();
    match which {
        0 => {
            inm.insert(Register::X5, AvailableValue::Constant(x));
            mem.insert(MemoryLocation::StackOffset(off), AvailableValue::RegisterWithScalar(Register::X5, k));
            rules::rule_known_values_to_stack(&mut mem, &inm);
        }
        1 => {
            inm.insert(Register::X5, AvailableValue::OriginalRegisterWithScalar(Register::X2, x));
            mem.insert(MemoryLocation::StackOffset(off), AvailableValue::RegisterWithScalar(Register::X5, k));
            rules::rule_known_values_to_stack(&mut mem, &inm);
        }
        _ => {
            inm.insert(Register::X2, AvailableValue::OriginalRegisterWithScalar(Register::X2, x));
            let node = mk::load(mk::LOAD[4], 5, 2, imm);
            let mut out: AvailableValueMap<Register> = AvailableValueMap::new();
            rules::rule_expand_address_for_load(&node, &mut out, &inm);
            core::mem::forget((node, out));
        }
    }
    crate::witness!(true, "W:end");
    core::mem::forget((inm, mem));
}

pub struct CsrCase {
    pub src: u8,
    pub base: u8,
}

/// rule_push_value_to_csr_memory: "the word at (CSR snapshot)+off holds R[src]".
pub fn rule_csr_push<S: Src>(s: &mut S, c: &CsrCase) {
    let wi = s.choice(3) as usize;
    let (imm, csrn) = (s.i32(), s.u32());
    let node = mk::store(mk::STORE[wi], c.base, c.src, imm);
    let width = [Width::B, Width::H, Width::W][wi];
    let mut inm: AvailableValueMap<Register> = AvailableValueMap::new();
    inm.insert(mk::reg(c.base), AvailableValue::ValueInCsr(CsrImm::new(csrn)));
    let pre = draw_rf(s, &[c.src, c.base]);
    let old = s.u32();
    let mut mem: AvailableValueMap<MemoryLocation> = AvailableValueMap::new();
    rules::rule_push_value_to_csr_memory(&node, &mut mem, &inm);
    for (l, v) in &mem {
        crate::seen!(true, "I:csr memory fact pushed");
        assert!(
            *l == MemoryLocation::CsrRegisterValueOffset(CsrImm::new(csrn), imm),
            "[C01] rule_push_value_to_csr_memory records a different location than the store writes"
        );
        match v {
            AvailableValue::RegisterWithScalar(q, 0) => {
                assert!(q.to_num() == c.src, "[C01] rule_push_value_to_csr_memory names a different register than the one stored");
                assert!(store_result(width, old, pre.get(c.src)) == pre.get(c.src), "[C01] memory word claimed to hold a register after a store that does not write the whole word");
            }
            _ => assert!(false, "[C01] unexpected kind of csr memory fact"),
        }
    }
    crate::witness!(true, "W:end");
    core::mem::forget((node, inm, mem));
}

/// rule_pull_value_from_csr_memory
pub fn rule_csr_pull<S: Src>(s: &mut S, c: &CsrCase) {
    // here: c.src is the destination, c.base the address register
    let wi = s.choice(5) as usize;
    let (imm, csrn, z, other) = (s.i32(), s.u32(), s.i32(), s.i32());
    let node = mk::load(mk::LOAD[wi], c.src, c.base, imm);
    let (width, signed) = [(Width::B, true), (Width::B, false), (Width::H, true), (Width::H, false), (Width::W, true)][wi];
    let mut out: AvailableValueMap<Register> = AvailableValueMap::new();
    out.insert(mk::reg(c.base), AvailableValue::ValueInCsr(CsrImm::new(csrn)));
    let mut mem: AvailableValueMap<MemoryLocation> = AvailableValueMap::new();
    mem.insert(MemoryLocation::CsrRegisterValueOffset(CsrImm::new(csrn), imm), AvailableValue::Constant(z));
    s.assume(other != imm);
    mem.insert(MemoryLocation::CsrRegisterValueOffset(CsrImm::new(csrn), other), AvailableValue::Constant(z.wrapping_add(1)));
    let entry = draw_rf(s, &[c.src, c.base]);
    let pre = draw_rf(s, &[c.src, c.base]);
    // gamma(mem): the word at (snapshot + imm) is z, and the base register holds the snapshot
    let word = z as u32;
    rules::rule_pull_value_from_csr_memory(&node, &mut out, &mem);
    let mut post = pre;
    post.set(c.src, load_result(width, signed, word));
    if c.src != c.base {
        if let Some(v) = out.get(&mk::reg(c.src)) {
            crate::seen!(true, "I:value pulled from csr memory");
            if let Some(ok) = gamma_reg(v, c.src, &entry, &post) {
                assert!(ok, "[C01] rule_pull_value_from_csr_memory derived a value that is false for some machine state");
            }
        }
    }
    crate::witness!(true, "W:end");
    core::mem::forget((node, out, mem));
}

pub const _LA: u32 = LA_ADDR;
