//! C06 (abs() in message formatting), C18.a (diagnostic ordering), C19
//! (value-level tag injectivity and round trips of the dump).

use crate::mk;
use crate::src::Src;
use riscv_analysis::analysis::{AvailableValue, MemoryLocation};
use riscv_analysis::cfg::RegisterSet;
use riscv_analysis::parser::{CsrImm, Imm, Position, Range, Register};
use riscv_analysis::passes::{DiagnosticItem, LintError, SeverityLevel};
use serde::ser::{self, Serialize};
use std::fmt::Write as _;

// ---------------------------------------------------------------------------
// C06: `i.abs()` evaluated while building messages / dump keys.
// `core::fmt::write` / `alloc::fmt::format` are stubbed (formatting is not the
// subject); the ARGUMENT expressions are still evaluated by the real code.

/// Replaces `core::fmt::Formatter::write_fmt` (the call a `write!(f, ..)` inside a
/// `Display::fmt` body makes): the argument expressions have been evaluated by then.
pub fn fmt_write_stub<'a>(_f: &mut core::fmt::Formatter<'a>, _args: core::fmt::Arguments<'_>) -> core::fmt::Result
where
    'a: 'a,
{
    Ok(())
}

fn abs_memloc_display<S: Src>(s: &mut S) {
    let off = s.i32();
    let loc = MemoryLocation::StackOffset(off);
    let mut out = String::new();
    let r = write!(out, "{loc}");
    crate::witness!(r.is_ok(), "W:end");
    core::mem::forget(out);
}

fn abs_lint_display<S: Src>(s: &mut S) {
    let off = s.i32();
    let which = s.bool();
    let node = mk::iarith(mk::IARITH[0], 2, 2, 0);
    let e = if which { LintError::InvalidStackPosition(node, off) } else { LintError::InvalidStackOffsetUsage(node, off) };
    let mut out = String::new();
    let r = write!(out, "{e}");
    crate::witness!(r.is_ok(), "W:end");
    core::mem::forget((out, e));
}

// ---------------------------------------------------------------------------
// C19: a recording serializer that keeps what a self-describing format keeps:
// variant NAME (not index), scalar VALUE (not width), sequence elements, strings.

#[derive(Clone, Copy, PartialEq, Eq, Debug)]
pub struct Rec {
    pub tag: &'static str,
    pub nums: [i64; 3],
    pub n: usize,
    pub text: [u8; 4],
    pub textlen: usize,
    pub unsupported: bool,
}

impl Rec {
    fn new() -> Self {
        Rec { tag: "", nums: [0; 3], n: 0, text: [0; 4], textlen: 0, unsupported: false }
    }
    fn num(&mut self, v: i64) {
        if self.n < 3 {
            self.nums[self.n] = v;
        }
        self.n += 1;
    }
}

#[derive(Debug)]
pub struct RecErr;
impl std::fmt::Display for RecErr {
    fn fmt(&self, _f: &mut std::fmt::Formatter<'_>) -> std::fmt::Result {
        Ok(())
    }
}
impl std::error::Error for RecErr {}
impl ser::Error for RecErr {
    fn custom<T: std::fmt::Display>(_msg: T) -> Self {
        RecErr
    }
}

pub struct Recorder<'a>(pub &'a mut Rec);

macro_rules! rec_int {
    ($($f:ident: $t:ty),*) => { $( fn $f(self, v: $t) -> Result<(), RecErr> { self.0.num(v as i64); Ok(()) } )* };
}

impl<'a> ser::Serializer for Recorder<'a> {
    type Ok = ();
    type Error = RecErr;
    type SerializeSeq = Recorder<'a>;
    type SerializeTuple = Recorder<'a>;
    type SerializeTupleStruct = Recorder<'a>;
    type SerializeTupleVariant = Recorder<'a>;
    type SerializeMap = ser::Impossible<(), RecErr>;
    type SerializeStruct = ser::Impossible<(), RecErr>;
    type SerializeStructVariant = ser::Impossible<(), RecErr>;

    rec_int!(serialize_i8: i8, serialize_i16: i16, serialize_i32: i32, serialize_i64: i64,
             serialize_u8: u8, serialize_u16: u16, serialize_u32: u32, serialize_u64: u64);
    fn serialize_bool(self, v: bool) -> Result<(), RecErr> {
        self.0.num(i64::from(v));
        Ok(())
    }
    fn serialize_f32(self, _v: f32) -> Result<(), RecErr> {
        self.0.unsupported = true;
        Ok(())
    }
    fn serialize_f64(self, _v: f64) -> Result<(), RecErr> {
        self.0.unsupported = true;
        Ok(())
    }
    fn serialize_char(self, v: char) -> Result<(), RecErr> {
        self.0.num(v as i64);
        Ok(())
    }
    fn serialize_str(self, v: &str) -> Result<(), RecErr> {
        let b = v.as_bytes();
        self.0.textlen = b.len();
        let mut i = 0;
        while i < 4 && i < b.len() {
            self.0.text[i] = b[i];
            i += 1;
        }
        Ok(())
    }
    fn serialize_bytes(self, _v: &[u8]) -> Result<(), RecErr> {
        self.0.unsupported = true;
        Ok(())
    }
    fn serialize_none(self) -> Result<(), RecErr> {
        Ok(())
    }
    fn serialize_some<T: ?Sized + Serialize>(self, v: &T) -> Result<(), RecErr> {
        v.serialize(self)
    }
    fn serialize_unit(self) -> Result<(), RecErr> {
        Ok(())
    }
    fn serialize_unit_struct(self, _n: &'static str) -> Result<(), RecErr> {
        Ok(())
    }
    fn serialize_unit_variant(self, _n: &'static str, _i: u32, variant: &'static str) -> Result<(), RecErr> {
        self.0.tag = variant;
        Ok(())
    }
    fn serialize_newtype_struct<T: ?Sized + Serialize>(self, _n: &'static str, v: &T) -> Result<(), RecErr> {
        v.serialize(self)
    }
    fn serialize_newtype_variant<T: ?Sized + Serialize>(self, _n: &'static str, _i: u32, variant: &'static str, v: &T) -> Result<(), RecErr> {
        self.0.tag = variant;
        v.serialize(self)
    }
    fn serialize_seq(self, _len: Option<usize>) -> Result<Self::SerializeSeq, RecErr> {
        Ok(self)
    }
    fn serialize_tuple(self, _len: usize) -> Result<Self::SerializeTuple, RecErr> {
        Ok(self)
    }
    fn serialize_tuple_struct(self, _n: &'static str, _len: usize) -> Result<Self::SerializeTupleStruct, RecErr> {
        Ok(self)
    }
    fn serialize_tuple_variant(self, _n: &'static str, _i: u32, variant: &'static str, _len: usize) -> Result<Self::SerializeTupleVariant, RecErr> {
        self.0.tag = variant;
        Ok(self)
    }
    fn serialize_map(self, _len: Option<usize>) -> Result<Self::SerializeMap, RecErr> {
        Err(RecErr)
    }
    fn serialize_struct(self, _n: &'static str, _len: usize) -> Result<Self::SerializeStruct, RecErr> {
        Err(RecErr)
    }
    fn serialize_struct_variant(self, _n: &'static str, _i: u32, _v: &'static str, _len: usize) -> Result<Self::SerializeStructVariant, RecErr> {
        Err(RecErr)
    }
}

macro_rules! rec_compound {
    ($tr:ident, $f:ident) => {
        impl<'a> ser::$tr for Recorder<'a> {
            type Ok = ();
            type Error = RecErr;
            fn $f<T: ?Sized + Serialize>(&mut self, v: &T) -> Result<(), RecErr> {
                v.serialize(Recorder(&mut *self.0))
            }
            fn end(self) -> Result<(), RecErr> {
                Ok(())
            }
        }
    };
}
rec_compound!(SerializeSeq, serialize_element);
rec_compound!(SerializeTuple, serialize_element);
rec_compound!(SerializeTupleStruct, serialize_field);
rec_compound!(SerializeTupleVariant, serialize_field);

pub fn record<T: Serialize>(v: &T) -> Rec {
    let mut r = Rec::new();
    if v.serialize(Recorder(&mut r)).is_err() {
        r.unsupported = true;
    }
    r
}

fn draw_fact<S: Src>(s: &mut S) -> AvailableValue {
    let k = s.choice(9);
    let i = s.i32();
    let u = s.u32();
    let r = mk::reg(s.reg());
    let l = s.bool();
    let name = if l { "aa" } else { "bb" };
    match k {
        0 => AvailableValue::Constant(i),
        1 => AvailableValue::Address(mk::label(name)),
        2 => AvailableValue::Memory(riscv_analysis::parser::LabelString::new(name), i),
        3 => AvailableValue::RegisterWithScalar(r, i),
        4 => AvailableValue::OriginalRegisterWithScalar(r, i),
        5 => AvailableValue::MemoryAtRegister(r, i),
        6 => AvailableValue::MemoryAtOriginalRegister(r, i),
        7 => AvailableValue::ValueInCsr(CsrImm::new(u)),
        _ => AvailableValue::MemoryAtCsr(CsrImm::new(u), i),
    }
}

/// Two facts that differ produce different dumps.
fn fact_injective<S: Src>(s: &mut S) {
    let a = draw_fact(s);
    let b = draw_fact(s);
    let (ra, rb) = (record(&a), record(&b));
    assert!(!ra.unsupported && !rb.unsupported, "[C19] fact value uses a construct the recorder does not model");
    crate::seen!(ra == rb, "I:equal records");
    if ra == rb {
        assert!(a == b, "[C19] two different value facts have the same serialized form");
    }
    crate::witness!(true, "W:end");
    core::mem::forget((a, b));
}

/// Register / Imm / CsrImm serialize to their number.
fn scalar_records<S: Src>(s: &mut S) {
    let r = s.reg();
    let i = s.i32();
    let u = s.u32();
    let rr = record(&mk::reg(r));
    assert!(rr.n == 1 && rr.nums[0] == i64::from(r), "[C19] Register does not serialize to its number");
    let ri = record(&Imm::new(i));
    assert!(ri.n == 1 && ri.nums[0] == i64::from(i), "[C19] Imm does not serialize to its value");
    let rc = record(&CsrImm::new(u));
    assert!(rc.n == 1 && rc.nums[0] == i64::from(u), "[C19] CsrImm does not serialize to its value");
    crate::witness!(true, "W:end");
}

/// RegisterSet round trip: deserialize(serialize(s)) == s (sets inside an 8-register window).
fn regset_roundtrip<S: Src>(s: &mut S) {
    use serde::de::value::{Error as DeErr, SeqDeserializer};
    use serde::Deserialize;
    let m = u32::from(s.u8()) & 0x03;
    let shift = u32::from(s.choice(16)) * 2;
    let mask = m << shift;
    let mut set = RegisterSet::new();
    let mut i: u8 = 0;
    while i < 32 {
        if (mask >> i) & 1 == 1 {
            set.set_register(&mk::reg(i));
        }
        i += 1;
    }
    // serialize: collect the sequence of register numbers
    let mut seq: [u8; 4] = [0; 4];
    let mut n = 0usize;
    {
        struct Seq<'a>(&'a mut [u8; 4], &'a mut usize);
        let rec = record(&set);
        let _ = Seq(&mut seq, &mut n);
        // the recorder keeps the first three numbers and the count
        let mut k = 0;
        while k < 3 && k < rec.n {
            seq[k] = rec.nums[k] as u8;
            k += 1;
        }
        n = rec.n;
    }
    assert!(n == mask.count_ones() as usize, "[C19] RegisterSet serializes a different number of registers");
    if n <= 3 {
        let v: Vec<u8> = seq[..n].to_vec();
        let de: SeqDeserializer<std::vec::IntoIter<u8>, DeErr> = SeqDeserializer::new(v.into_iter());
        let back = RegisterSet::deserialize(de);
        crate::seen!(back.is_ok(), "I:reloaded");
        match back {
            Ok(b) => assert!(b == set, "[C19] RegisterSet does not reload to the set that was written"),
            Err(_) => assert!(false, "[C19] serialized RegisterSet cannot be reloaded"),
        }
    }
    crate::witness!(true, "W:end");
}

// ---------------------------------------------------------------------------
// C18.a: diagnostics are sorted by position within each file.

fn item(file: bool, start: usize, end: usize) -> DiagnosticItem {
    DiagnosticItem {
        file: if file { uuid::Uuid::from_u128(2) } else { uuid::Uuid::from_u128(1) },
        range: Range::new(Position::new(0, 0, start), Position::new(0, 0, end)),
        title: String::new(),
        description: String::new(),
        long_description: String::new(),
        level: SeverityLevel::Error,
        related: None,
    }
}

fn diag_order<S: Src>(s: &mut S) {
    let (f1, f2, f3) = (s.bool(), s.bool(), s.bool());
    let (a1, a2, b1, b2, c1, c2) = (s.usize(), s.usize(), s.usize(), s.usize(), s.usize(), s.usize());
    let (a, b, c) = (item(f1, a1, a2), item(f2, b1, b2), item(f3, c1, c2));
    use std::cmp::Ordering::{Equal, Greater, Less};
    // total order
    assert!(a.cmp(&b) == b.cmp(&a).reverse(), "[C18] DiagnosticItem::cmp is not antisymmetric");
    if a.cmp(&b) != Greater && b.cmp(&c) != Greater {
        assert!(a.cmp(&c) != Greater, "[C18] DiagnosticItem::cmp is not transitive");
    }
    assert!((a.cmp(&b) == Equal) == (a == b), "[C18] DiagnosticItem == disagrees with cmp");
    // within one file: by (start, end) raw offset
    if f1 == f2 {
        let want = (a1, a2).cmp(&(b1, b2));
        assert!(a.cmp(&b) == want, "[C18] diagnostics of one file are not ordered by position");
        crate::seen!(want == Less, "I:strictly ordered pair in one file");
    }
    crate::witness!(true, "W:end");
    core::mem::forget((a, b, c));
}

fn diag_sort3<S: Src>(s: &mut S) {
    let (f1, f2, f3) = (s.bool(), s.bool(), s.bool());
    let (a1, b1, c1) = (s.usize(), s.usize(), s.usize());
    let mut v: Vec<DiagnosticItem> = Vec::with_capacity(3);
    v.push(item(f1, a1, a1));
    v.push(item(f2, b1, b1));
    v.push(item(f3, c1, c1));
    v.sort();
    let mut i = 0;
    while i + 1 < 3 {
        let mut j = i + 1;
        while j < 3 {
            if v[i].file == v[j].file {
                assert!(
                    v[i].range.start().raw_index() <= v[j].range.start().raw_index(),
                    "[C18] after sort(), diagnostics of one file are not in position order"
                );
            }
            j += 1;
        }
        i += 1;
    }
    crate::witness!(true, "W:end");
    core::mem::forget(v);
}

crate::obligations! {
    #[kani::stub(core::fmt::Formatter::write_fmt, crate::ob_misc::fmt_write_stub)]
    fn abs_memloc_fmt(s) { abs_memloc_display(s) }

    #[kani::stub(core::fmt::Formatter::write_fmt, crate::ob_misc::fmt_write_stub)]
    #[kani::stub(uuid::Uuid::new_v4, crate::stubs::uuid_counter)]
    fn abs_lint_fmt(s) { abs_lint_display(s) }

    #[kani::stub(alloc::fmt::format, crate::stubs::empty_format)]
    fn abs_memloc_ser(s) {
        let off = s.i32();
        let r = record(&MemoryLocation::StackOffset(off));
        crate::witness!(!r.unsupported, "W:end");
    }

    #[kani::unwind(30)]
    fn serde_fact_injective(s) { fact_injective(s) }
    fn serde_scalar_records(s) { scalar_records(s) }
    #[kani::unwind(34)]
    fn serde_regset_roundtrip(s) { regset_roundtrip(s) }
    #[kani::unwind(34)]
    fn serde_regset_single(s) {
        // a one-register set serializes to exactly that register's number
        let r = s.reg();
        let rec = record(&RegisterSet::from_register(mk::reg(r)));
        assert!(!rec.unsupported && rec.n == 1 && rec.nums[0] == i64::from(r), "[C19] a one-register set does not serialize to that register");
        crate::witness!(true, "W:end");
    }

    #[kani::unwind(20)]
    fn diag_cmp_order(s) { diag_order(s) }
    #[kani::unwind(20)]
    fn diag_sort_three(s) { diag_sort3(s) }
}
