//! Independent RV32IM reference semantics (from the RISC-V ISA manual, vol. I,
//! chapters 2 "RV32I" and 7 "M").  Deliberately written on `u32`/`u64` with
//! explicit wrapping operations, sharing nothing with the repository.

#[derive(Clone, Copy, PartialEq, Eq, Debug)]
pub enum Alu {
    Add,
    Sub,
    And,
    Or,
    Xor,
    Sll,
    Srl,
    Sra,
    Slt,
    Sltu,
    Mul,
    Mulh,
    Mulhsu,
    Mulhu,
    Div,
    Divu,
    Rem,
    Remu,
}

pub const ALL_ALU: [Alu; 18] = [
    Alu::Add,
    Alu::Sub,
    Alu::And,
    Alu::Or,
    Alu::Xor,
    Alu::Sll,
    Alu::Srl,
    Alu::Sra,
    Alu::Slt,
    Alu::Sltu,
    Alu::Mul,
    Alu::Mulh,
    Alu::Mulhsu,
    Alu::Mulhu,
    Alu::Div,
    Alu::Divu,
    Alu::Rem,
    Alu::Remu,
];

/// x, y: register contents; result: register content written to rd.
pub fn alu(op: Alu, x: u32, y: u32) -> u32 {
    let sx = x as i32;
    let sy = y as i32;
    match op {
        Alu::Add => x.wrapping_add(y),
        Alu::Sub => x.wrapping_sub(y),
        Alu::And => x & y,
        Alu::Or => x | y,
        Alu::Xor => x ^ y,
        // shifts use the low 5 bits of the shift amount
        Alu::Sll => x << (y & 31),
        Alu::Srl => x >> (y & 31),
        Alu::Sra => (sx >> (y & 31)) as u32,
        Alu::Slt => u32::from(sx < sy),
        Alu::Sltu => u32::from(x < y),
        Alu::Mul => x.wrapping_mul(y),
        Alu::Mulh => (((sx as i64).wrapping_mul(sy as i64)) >> 32) as u32,
        // signed rs1 x unsigned rs2
        Alu::Mulhsu => (((sx as i64).wrapping_mul(y as u64 as i64)) >> 32) as u32,
        Alu::Mulhu => (((x as u64).wrapping_mul(y as u64)) >> 32) as u32,
        Alu::Div => {
            if y == 0 {
                u32::MAX
            } else if sx == i32::MIN && sy == -1 {
                x
            } else {
                (sx.wrapping_div(sy)) as u32
            }
        }
        Alu::Divu => {
            if y == 0 {
                u32::MAX
            } else {
                x / y
            }
        }
        Alu::Rem => {
            if y == 0 {
                x
            } else if sx == i32::MIN && sy == -1 {
                0
            } else {
                (sx.wrapping_rem(sy)) as u32
            }
        }
        Alu::Remu => {
            if y == 0 {
                x
            } else {
                x % y
            }
        }
    }
}

/// `alu` restricted to the operators whose circuits are cheap for a SAT solver
/// (no multiplier/divider); other operators are mapped to 0 and must be
/// excluded by the caller.  Lets a harness keep the operator symbolic without
/// dragging multiplier and divider circuits into every formula.
pub fn alu_cheap(op: Alu, x: u32, y: u32) -> u32 {
    match op {
        Alu::Add | Alu::Sub | Alu::And | Alu::Or | Alu::Xor | Alu::Sll | Alu::Srl | Alu::Sra | Alu::Slt | Alu::Sltu => alu(op, x, y),
        _ => 0,
    }
}

#[derive(Clone, Copy, PartialEq, Eq, Debug)]
pub enum Cond {
    Eq,
    Ne,
    Lt,
    Ge,
    Ltu,
    Geu,
}

pub fn branch_taken(c: Cond, x: u32, y: u32) -> bool {
    match c {
        Cond::Eq => x == y,
        Cond::Ne => x != y,
        Cond::Lt => (x as i32) < (y as i32),
        Cond::Ge => (x as i32) >= (y as i32),
        Cond::Ltu => x < y,
        Cond::Geu => x >= y,
    }
}

/// Read access to a register file (x0 reads as zero).
pub trait RegRead {
    fn get(&self, r: u8) -> u32;
}

/// A register file given by the values of a few named registers plus one
/// value shared by all others (registers an obligation never names cannot
/// influence it).  Lookup is first-match, so repeated keys are consistent.
#[derive(Clone, Copy)]
pub struct RF {
    pub keys: [u8; 6],
    pub vals: [u32; 6],
    pub n: usize,
    pub other: u32,
}

impl RF {
    pub fn new(other: u32) -> Self {
        RF { keys: [0; 6], vals: [0; 6], n: 0, other }
    }
    /// Bind `r` (most recent binding wins).
    pub fn set(&mut self, r: u8, v: u32) {
        if r == 0 {
            return;
        }
        // shift right, insert at the front
        let mut i = 5;
        while i > 0 {
            self.keys[i] = self.keys[i - 1];
            self.vals[i] = self.vals[i - 1];
            i -= 1;
        }
        self.keys[0] = r;
        self.vals[0] = v;
        if self.n < 6 {
            self.n += 1;
        }
    }
}

impl RegRead for RF {
    fn get(&self, r: u8) -> u32 {
        if r == 0 {
            return 0;
        }
        let mut i = 0;
        while i < 6 {
            if i < self.n && self.keys[i] == r {
                return self.vals[i];
            }
            i += 1;
        }
        self.other
    }
}

/// Register file with x0 hard-wired to zero.
#[derive(Clone, Copy)]
pub struct Regs(pub [u32; 32]);

impl RegRead for Regs {
    fn get(&self, r: u8) -> u32 {
        Regs::get(self, r)
    }
}

impl Regs {
    pub fn get(&self, r: u8) -> u32 {
        if r == 0 {
            0
        } else {
            self.0[(r & 31) as usize]
        }
    }
    pub fn set(&mut self, r: u8, v: u32) {
        if r != 0 {
            self.0[(r & 31) as usize] = v;
        }
    }
}

// ---------------------------------------------------------------------------
// One-instruction semantics at the ISA level.

#[derive(Clone, Copy, PartialEq, Eq, Debug)]
pub enum Width {
    B,
    H,
    W,
}

#[derive(Clone, Copy, PartialEq, Eq, Debug)]
pub enum CsrOp {
    Rw,
    Rs,
    Rc,
}

/// An RV32IM (+Zicsr) instruction with architectural operand fields.
#[derive(Clone, Copy, PartialEq, Eq, Debug)]
pub enum RInst {
    /// rd = op(rs1, rs2)
    Alu { op: Alu, rd: u8, rs1: u8, rs2: u8 },
    /// rd = op(rs1, sext(imm)); shift-immediates use imm[4:0]
    AluImm { op: Alu, rd: u8, rs1: u8, imm: i32 },
    /// rd = value (lui: the already shifted upper immediate; li; la: a link-time constant)
    Const { rd: u8, value: u32 },
    /// rd = pc + 4; pc = label
    Jal { rd: u8 },
    /// rd = pc + 4; pc = (rs1 + imm) & !1
    Jalr { rd: u8, rs1: u8, imm: i32 },
    Branch { cond: Cond, rs1: u8, rs2: u8 },
    Load { width: Width, signed: bool, rd: u8, rs1: u8, imm: i32 },
    Store { width: Width, rs1: u8, rs2: u8, imm: i32 },
    /// t = CSR[csr]; CSR[csr] = f(t, rs1); rd = t
    Csr { op: CsrOp, rd: u8, csr: u32, rs1: u8 },
    CsrImm { op: CsrOp, rd: u8, csr: u32, uimm: u32 },
    /// ecall / ebreak / uret: no architectural register operand fields
    System,
}

/// Registers named by the instruction's source fields (ISA manual, instruction formats).
pub fn arch_reads(i: &RInst) -> u32 {
    let b = |r: u8| 1u32 << (r & 31);
    match *i {
        RInst::Alu { rs1, rs2, .. } => b(rs1) | b(rs2),
        RInst::AluImm { rs1, .. } => b(rs1),
        RInst::Const { .. } | RInst::Jal { .. } | RInst::System | RInst::CsrImm { .. } => 0,
        RInst::Jalr { rs1, .. } => b(rs1),
        RInst::Branch { rs1, rs2, .. } => b(rs1) | b(rs2),
        RInst::Load { rs1, .. } => b(rs1),
        RInst::Store { rs1, rs2, .. } => b(rs1) | b(rs2),
        RInst::Csr { rs1, .. } => b(rs1),
    }
}

/// Register named by the destination field, if the format has one.
pub fn arch_writes(i: &RInst) -> Option<u8> {
    match *i {
        RInst::Alu { rd, .. }
        | RInst::AluImm { rd, .. }
        | RInst::Const { rd, .. }
        | RInst::Jal { rd }
        | RInst::Jalr { rd, .. }
        | RInst::Load { rd, .. }
        | RInst::Csr { rd, .. }
        | RInst::CsrImm { rd, .. } => Some(rd),
        RInst::Branch { .. } | RInst::Store { .. } | RInst::System => None,
    }
}

/// Everything one instruction does that depends on register contents.
#[derive(Clone, Copy, PartialEq, Eq, Debug)]
pub struct Effect {
    /// value written to rd (before the x0 discard), if it is computed from registers/immediates
    pub rd_value: Option<u32>,
    /// branch decision
    pub taken: Option<bool>,
    /// indirect jump target
    pub target: Option<u32>,
    /// effective address of a load/store
    pub addr: Option<u32>,
    /// value stored (already truncated to the access width)
    pub store_value: Option<u32>,
    /// value a CSR instruction combines with the old CSR content
    pub csr_operand: Option<u32>,
}

pub fn effect<R: RegRead>(i: &RInst, r: &R, pc: u32) -> Effect {
    let mut e = Effect { rd_value: None, taken: None, target: None, addr: None, store_value: None, csr_operand: None };
    match *i {
        RInst::Alu { op, rs1, rs2, .. } => e.rd_value = Some(alu(op, r.get(rs1), r.get(rs2))),
        RInst::AluImm { op, rs1, imm, .. } => e.rd_value = Some(alu(op, r.get(rs1), imm as u32)),
        RInst::Const { value, .. } => e.rd_value = Some(value),
        RInst::Jal { .. } => {
            e.rd_value = Some(pc.wrapping_add(4));
            e.taken = Some(true);
        }
        RInst::Jalr { rs1, imm, .. } => {
            e.rd_value = Some(pc.wrapping_add(4));
            e.target = Some(r.get(rs1).wrapping_add(imm as u32) & !1);
            e.taken = Some(true);
        }
        RInst::Branch { cond, rs1, rs2 } => e.taken = Some(branch_taken(cond, r.get(rs1), r.get(rs2))),
        RInst::Load { rs1, imm, .. } => e.addr = Some(r.get(rs1).wrapping_add(imm as u32)),
        RInst::Store { width, rs1, rs2, imm } => {
            e.addr = Some(r.get(rs1).wrapping_add(imm as u32));
            let v = r.get(rs2);
            e.store_value = Some(match width {
                Width::B => v & 0xff,
                Width::H => v & 0xffff,
                Width::W => v,
            });
        }
        RInst::Csr { rs1, .. } => e.csr_operand = Some(r.get(rs1)),
        RInst::CsrImm { uimm, .. } => e.csr_operand = Some(uimm),
        RInst::System => {}
    }
    e
}
