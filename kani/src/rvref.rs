//! Independent RV32IM reference semantics (from the RISC-V ISA manual, vol. I,
//! chapters 2 "RV32I" and 7 "M").  Deliberately written on `u32`/`u64` with
//! explicit wrapping operations, sharing nothing with the repository.

#[derive(Clone, Copy, PartialEq, Eq, Debug)]
pub enum Alu {
    Add,
    Sub,
    And,
    Or,
    Xor,
    Sll,
    Srl,
    Sra,
    Slt,
    Sltu,
    Mul,
    Mulh,
    Mulhsu,
    Mulhu,
    Div,
    Divu,
    Rem,
    Remu,
}

pub const ALL_ALU: [Alu; 18] = [
    Alu::Add,
    Alu::Sub,
    Alu::And,
    Alu::Or,
    Alu::Xor,
    Alu::Sll,
    Alu::Srl,
    Alu::Sra,
    Alu::Slt,
    Alu::Sltu,
    Alu::Mul,
    Alu::Mulh,
    Alu::Mulhsu,
    Alu::Mulhu,
    Alu::Div,
    Alu::Divu,
    Alu::Rem,
    Alu::Remu,
];

/// x, y: register contents; result: register content written to rd.
pub fn alu(op: Alu, x: u32, y: u32) -> u32 {
    let sx = x as i32;
    let sy = y as i32;
    match op {
        Alu::Add => x.wrapping_add(y),
        Alu::Sub => x.wrapping_sub(y),
        Alu::And => x & y,
        Alu::Or => x | y,
        Alu::Xor => x ^ y,
        // shifts use the low 5 bits of the shift amount
        Alu::Sll => x << (y & 31),
        Alu::Srl => x >> (y & 31),
        Alu::Sra => (sx >> (y & 31)) as u32,
        Alu::Slt => u32::from(sx < sy),
        Alu::Sltu => u32::from(x < y),
        Alu::Mul => x.wrapping_mul(y),
        Alu::Mulh => (((sx as i64).wrapping_mul(sy as i64)) >> 32) as u32,
        // signed rs1 x unsigned rs2
        Alu::Mulhsu => (((sx as i64).wrapping_mul(y as u64 as i64)) >> 32) as u32,
        Alu::Mulhu => (((x as u64).wrapping_mul(y as u64)) >> 32) as u32,
        Alu::Div => {
            if y == 0 {
                u32::MAX
            } else if sx == i32::MIN && sy == -1 {
                x
            } else {
                (sx.wrapping_div(sy)) as u32
            }
        }
        Alu::Divu => {
            if y == 0 {
                u32::MAX
            } else {
                x / y
            }
        }
        Alu::Rem => {
            if y == 0 {
                x
            } else if sx == i32::MIN && sy == -1 {
                0
            } else {
                (sx.wrapping_rem(sy)) as u32
            }
        }
        Alu::Remu => {
            if y == 0 {
                x
            } else {
                x % y
            }
        }
    }
}

#[derive(Clone, Copy, PartialEq, Eq, Debug)]
pub enum Cond {
    Eq,
    Ne,
    Lt,
    Ge,
    Ltu,
    Geu,
}

pub fn branch_taken(c: Cond, x: u32, y: u32) -> bool {
    match c {
        Cond::Eq => x == y,
        Cond::Ne => x != y,
        Cond::Lt => (x as i32) < (y as i32),
        Cond::Ge => (x as i32) >= (y as i32),
        Cond::Ltu => x < y,
        Cond::Geu => x >= y,
    }
}

/// Register file with x0 hard-wired to zero.
#[derive(Clone, Copy)]
pub struct Regs(pub [u32; 32]);

impl Regs {
    pub fn get(&self, r: u8) -> u32 {
        if r == 0 {
            0
        } else {
            self.0[(r & 31) as usize]
        }
    }
    pub fn set(&mut self, r: u8, v: u32) {
        if r != 0 {
            self.0[(r & 31) as usize] = v;
        }
    }
}
