//! C09 / C06: the lexer's position bookkeeping.
//!
//! For EVERY character string of length <= N (characters unconstrained,
//! length symbolic) the real `Lexer` is stepped with the real `consume_char`
//! from the start; at each index the real `get_pos()` must equal the
//! position computed by the three-line reference below:
//!   line   = number of '\n' strictly before the index,
//!   column = distance from the character after the last such '\n',
//!   raw    = the index.
//! `get_range()` must be `[pos, pos + 1 column]` on one line.

use crate::src::Src;
use riscv_analysis::parser::{Lexer, Position, Range};

fn draw_char<S: Src>(s: &mut S) -> char {
    let c = s.u32();
    s.assume(c < 0xD800 || (0xE000..0x11_0000).contains(&c));
    match char::from_u32(c) {
        Some(ch) => ch,
        None => 'x',
    }
}

fn cursor_body<S: Src, const N: usize>(s: &mut S) {
    let n = s.usize();
    s.assume(n <= N);
    let mut chars = ['\0'; N];
    let mut i = 0;
    while i < N {
        chars[i] = draw_char(s);
        i += 1;
    }
    let mut v: Vec<char> = Vec::with_capacity(N);
    let mut i = 0;
    while i < N {
        if i < n {
            v.push(chars[i]);
        }
        i += 1;
    }
    let mut lexer = Lexer::verif_from_chars(v, uuid::Uuid::nil());

    let mut line = 0usize;
    let mut column = 0usize;
    let mut i = 0;
    while i < N {
        if i < n {
            let pos = lexer.verif_get_pos();
            assert!(pos.raw_index() == i, "[C09] raw offset of a character is not its index");
            assert!(pos.zero_idx_line() == line, "[C09] line of a character is not the number of newlines before it");
            assert!(pos.zero_idx_column() == column, "[C09] column of a character is not its distance from the line start");
            assert!(lexer.verif_cursor() == i, "[C09] cursor does not advance by one character");
            let range = lexer.verif_get_range();
            assert!(*range.start() == pos, "[C09] one-character range does not start at the cursor");
            assert!(
                range.end().zero_idx_line() == line
                    && range.end().zero_idx_column() == column + 1
                    && range.end().raw_index() == i + 1,
                "[C09] one-character range does not end one column later on the same line"
            );
            crate::seen!(chars[i] == '\n', "I:newline character visited");
            crate::seen!(i > 0 && line == 0 && column > 0, "I:later character on first line");
            crate::seen!(line > 0 && column > 0, "I:later character on later line");
            if chars[i] == '\n' {
                line += 1;
                column = 0;
            } else {
                column += 1;
            }
            lexer.verif_consume_char();
        }
        i += 1;
    }
    // at end of input the raw offset is the length
    assert!(lexer.verif_get_pos().raw_index() == n, "[C09] raw offset at end of input is not the length");
    crate::witness!(n == N, "W:full-length string reaches the end");
    core::mem::forget(lexer);
}

/// Position/Range arithmetic and ordering (C09.b).
fn position_order<S: Src>(s: &mut S) {
    let (l1, c1, r1) = (s.usize(), s.usize(), s.usize());
    let (l2, c2, r2) = (s.usize(), s.usize(), s.usize());
    let a = Position::new(l1, c1, r1);
    let b = Position::new(l2, c2, r2);
    assert!((a < b) == (r1 < r2), "[C09] positions are not ordered by raw offset");
    assert!(a.cmp(&b) == r1.cmp(&r2), "[C09] Position::cmp is not raw-offset order");
    s.assume(l1 < usize::MAX && c1 < usize::MAX && r1 < usize::MAX);
    assert!(a.one_idx_line() == l1 + 1 && a.one_idx_column() == c1 + 1, "[C09] one-based = zero-based + 1");
    let mut m = a;
    m.increment_column();
    assert!(
        m.zero_idx_line() == l1 && m.zero_idx_column() == c1 + 1 && m.raw_index() == r1 + 1,
        "[C09] increment_column does not move column and raw offset together"
    );
    crate::witness!(true, "W:end");
}

fn position_line_start<S: Src>(s: &mut S) {
    let (l, c, r) = (s.usize(), s.usize(), s.usize());
    // a consistent position: at least `c` characters precede it on its line
    s.assume(c <= r);
    let mut p = Position::new(l, c, r);
    p.decrement_to_beginning_of_line();
    assert!(
        p.zero_idx_line() == l && p.zero_idx_column() == 0 && p.raw_index() == r - c,
        "[C09] decrement_to_beginning_of_line does not land on column 0 of the same line"
    );
    crate::witness!(true, "W:end");
}

fn range_order<S: Src>(s: &mut S) {
    let (a1, a2, b1, b2) = (s.usize(), s.usize(), s.usize(), s.usize());
    let ra = Range::new(Position::new(0, 0, a1), Position::new(0, 0, a2));
    let rb = Range::new(Position::new(1, 7, b1), Position::new(2, 9, b2));
    let want = (a1, a2).cmp(&(b1, b2));
    assert!(ra.cmp(&rb) == want, "[C09] ranges are not ordered by (start, end) raw offsets");
    crate::witness!(true, "W:end");
}

crate::obligations! {
    #[kani::unwind(8)]
    fn lexpos_cursor6(s) { cursor_body::<S, 6>(s) }
    #[kani::unwind(5)]
    fn lexpos_cursor3(s) { cursor_body::<S, 3>(s) }
    #[kani::unwind(10)]
    fn lexpos_cursor8(s) { cursor_body::<S, 8>(s) }
    fn lexpos_position_order(s) { position_order(s) }
    fn lexpos_position_line_start(s) { position_line_start(s) }
    fn lexpos_range_order(s) { range_order(s) }
}
