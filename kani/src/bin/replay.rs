//! Native replay of a Kani counterexample against the real code.
//!
//! usage: replay <harness-name> <file>     file: one line per kani::any() draw,
//!                                          comma-separated little-endian bytes.
//! exit 0 + "REPRODUCED: <panic message>"  the obligation fails natively too
//! exit 3 + "NOT-REPRODUCED"               it does not (encoding/stub/oracle problem)
//! exit 4                                  usage / unknown harness

use rva_verif::src::{AssumptionViolated, ReplaySrc};
use std::panic;

fn main() {
    let args: Vec<String> = std::env::args().collect();
    if args.len() != 3 {
        eprintln!("usage: replay <harness> <values-file>");
        std::process::exit(4);
    }
    let name = &args[1];
    let text = std::fs::read_to_string(&args[2]).unwrap_or_else(|e| {
        eprintln!("cannot read {}: {e}", args[2]);
        std::process::exit(4);
    });
    let mut vals: Vec<Vec<u8>> = Vec::new();
    for line in text.lines() {
        let line = line.trim();
        if line.is_empty() || line.starts_with('#') {
            continue;
        }
        vals.push(
            line.split(',')
                .filter(|x| !x.trim().is_empty())
                .map(|x| x.trim().parse::<u8>().expect("byte"))
                .collect(),
        );
    }
    let mut found = None;
    for table in rva_verif::replay_tables() {
        for (n, f) in table {
            if n == name {
                found = Some(*f);
            }
        }
    }
    let Some(f) = found else {
        eprintln!("unknown harness {name}");
        std::process::exit(4);
    };
    let result = panic::catch_unwind(move || {
        let mut src = ReplaySrc::new(vals);
        f(&mut src);
        src.exhausted
    });
    match result {
        Ok(exhausted) => {
            println!("NOT-REPRODUCED: obligation passed natively (draws exhausted: {exhausted})");
            std::process::exit(3);
        }
        Err(e) => {
            if e.downcast_ref::<AssumptionViolated>().is_some() {
                println!("NOT-REPRODUCED: counterexample violates a harness assumption");
                std::process::exit(3);
            }
            let msg = if let Some(s) = e.downcast_ref::<&str>() {
                (*s).to_string()
            } else if let Some(s) = e.downcast_ref::<String>() {
                s.clone()
            } else {
                "panic".to_string()
            };
            println!("REPRODUCED: {msg}");
            std::process::exit(0);
        }
    }
}
