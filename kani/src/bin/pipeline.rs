//! Native helper: push assembly text through the public pipeline of the real
//! crate and print the value facts and diagnostics.  Used (a) to confirm that
//! a kernel-level counterexample is deliverable through `RVParser::run`
//! (under-constrained-kernel guard, DESIGN.md section 3) and (b) for triage.
//!
//! usage: pipeline <file.s> [--facts]
//! exit 0: ran to completion; exit 101: panic (Rust default)

use riscv_analysis::parser::{EmptyFileReader, RVParser, RVStringParser};
use riscv_analysis::passes::Manager;

fn main() {
    let args: Vec<String> = std::env::args().collect();
    let text = std::fs::read_to_string(&args[1]).expect("read input");
    let facts = args.iter().any(|a| a == "--facts");
    if facts {
        let (nodes, errs) = RVStringParser::parse_from_text(&text);
        println!("parse errors: {}", errs.len());
        match Manager::gen_full_cfg(nodes) {
            Ok(cfg) => {
                for n in cfg.iter() {
                    println!("{}", n.node());
                    println!("    regs_out: {}", n.reg_values_out());
                    println!("    mem_out:  {}", n.memory_values_out());
                }
            }
            Err(e) => println!("cfg error: {e:?}"),
        }
    }
    let mut parser = RVParser::new(EmptyFileReader::new(&text));
    let diags = parser.run(EmptyFileReader::get_file_path());
    for d in &diags {
        println!("DIAG {}:{}-{}:{} {}", d.range.start().one_idx_line(), d.range.start().one_idx_column(),
            d.range.end().one_idx_line(), d.range.end().one_idx_column(), d.title);
    }
    println!("diagnostics: {}", diags.len());
}
