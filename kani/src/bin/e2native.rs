//! Native companion of engine E2 (mir2smt): tells the translator which
//! `MathOp` variant each mnemonic folds with, and evaluates the real
//! `MathOp::operate` on concrete vectors (translator validation, replay).
//!
//! usage: e2native map
//!        e2native eval <mnemonic> <x> <y>      prints the result or PANIC

use riscv_analysis::cfg::MathOp;
use riscv_analysis::parser::Inst;

const MNEMONICS: &[(&str, Inst)] = &[
    ("add", Inst::Add), ("addi", Inst::Addi), ("sub", Inst::Sub), ("and", Inst::And), ("andi", Inst::Andi),
    ("or", Inst::Or), ("ori", Inst::Ori), ("xor", Inst::Xor), ("xori", Inst::Xori), ("sll", Inst::Sll),
    ("slli", Inst::Slli), ("srl", Inst::Srl), ("srli", Inst::Srli), ("sra", Inst::Sra), ("srai", Inst::Srai),
    ("slt", Inst::Slt), ("slti", Inst::Slti), ("sltu", Inst::Sltu), ("sltiu", Inst::Sltiu), ("mul", Inst::Mul),
    ("mulh", Inst::Mulh), ("mulhsu", Inst::Mulhsu), ("mulhu", Inst::Mulhu), ("div", Inst::Div),
    ("divu", Inst::Divu), ("rem", Inst::Rem), ("remu", Inst::Remu),
];

fn variant_name(m: &MathOp) -> &'static str {
    match m {
        MathOp::Add => "Add",
        MathOp::And => "And",
        MathOp::Or => "Or",
        MathOp::Sll => "Sll",
        MathOp::Slt => "Slt",
        MathOp::Sltu => "Sltu",
        MathOp::Sra => "Sra",
        MathOp::Srl => "Srl",
        MathOp::Sub => "Sub",
        MathOp::Xor => "Xor",
        MathOp::Mul => "Mul",
        MathOp::Mulh => "Mulh",
        MathOp::Mulhsu => "Mulhsu",
        MathOp::Mulhu => "Mulhu",
        MathOp::Div => "Div",
        MathOp::Divu => "Divu",
        MathOp::Rem => "Rem",
        MathOp::Remu => "Remu",
    }
}

fn main() {
    let args: Vec<String> = std::env::args().collect();
    match args.get(1).map(String::as_str) {
        Some("map") => {
            for (name, inst) in MNEMONICS {
                match inst.math_op() {
                    Some(m) => println!("map {name} {}", variant_name(&m)),
                    None => println!("map {name} NONE"),
                }
            }
        }
        Some("eval") => {
            let name = &args[2];
            let x: i32 = args[3].parse().expect("x");
            let y: i32 = args[4].parse().expect("y");
            let inst = MNEMONICS.iter().find(|(n, _)| n == name).expect("mnemonic").1;
            std::panic::set_hook(Box::new(|_| {}));
            let r = std::panic::catch_unwind(move || inst.math_op().map(|m| m.operate(x, y)));
            match r {
                Ok(Some(v)) => println!("{v}"),
                Ok(None) => println!("NONE"),
                Err(_) => println!("PANIC"),
            }
        }
        _ => {
            eprintln!("usage: e2native map | eval <mnemonic> <x> <y>");
            std::process::exit(4);
        }
    }
}
