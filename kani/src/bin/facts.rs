//! Engine E4, native half: run the REAL pipeline (`RVStringParser::parse_from_text`
//! + `Manager::gen_full_cfg`) on each program of a file and print the control-flow
//! graph with the value facts attached to every node, as JSON (one line per program).
//!
//! usage: facts <file>     programs separated by lines consisting of "----"

use riscv_analysis::analysis::{AvailableValue, MemoryLocation};
use riscv_analysis::cfg::{AvailableValueMap, RegisterSet};
use riscv_analysis::parser::{HasIdentity, InstructionProperties, ParserNode, RVStringParser, Register};
use riscv_analysis::passes::{DiagnosticManager, Manager};
use rva_verif::ob_text::{node_label, node_meaning};
use rva_verif::rvref::RInst;

fn inst_json(i: &RInst) -> String {
    match *i {
        RInst::Alu { op, rd, rs1, rs2 } => format!("{{\"k\":\"Alu\",\"op\":\"{op:?}\",\"rd\":{rd},\"rs1\":{rs1},\"rs2\":{rs2}}}"),
        RInst::AluImm { op, rd, rs1, imm } => format!("{{\"k\":\"AluImm\",\"op\":\"{op:?}\",\"rd\":{rd},\"rs1\":{rs1},\"imm\":{imm}}}"),
        RInst::Const { rd, value } => format!("{{\"k\":\"Const\",\"rd\":{rd},\"value\":{value}}}"),
        RInst::Jal { rd } => format!("{{\"k\":\"Jal\",\"rd\":{rd}}}"),
        RInst::Jalr { rd, rs1, imm } => format!("{{\"k\":\"Jalr\",\"rd\":{rd},\"rs1\":{rs1},\"imm\":{imm}}}"),
        RInst::Branch { cond, rs1, rs2 } => format!("{{\"k\":\"Branch\",\"cond\":\"{cond:?}\",\"rs1\":{rs1},\"rs2\":{rs2}}}"),
        RInst::Load { width, signed, rd, rs1, imm } => {
            format!("{{\"k\":\"Load\",\"width\":\"{width:?}\",\"signed\":{signed},\"rd\":{rd},\"rs1\":{rs1},\"imm\":{imm}}}")
        }
        RInst::Store { width, rs1, rs2, imm } => format!("{{\"k\":\"Store\",\"width\":\"{width:?}\",\"rs1\":{rs1},\"rs2\":{rs2},\"imm\":{imm}}}"),
        RInst::Csr { op, rd, csr, rs1 } => format!("{{\"k\":\"Csr\",\"op\":\"{op:?}\",\"rd\":{rd},\"csr\":{csr},\"rs1\":{rs1}}}"),
        RInst::CsrImm { op, rd, csr, uimm } => format!("{{\"k\":\"CsrImm\",\"op\":\"{op:?}\",\"rd\":{rd},\"csr\":{csr},\"uimm\":{uimm}}}"),
        RInst::System => "{\"k\":\"System\"}".to_string(),
    }
}

fn value_json(v: &AvailableValue) -> String {
    match v {
        AvailableValue::Constant(c) => format!("{{\"t\":\"Const\",\"c\":{c}}}"),
        AvailableValue::Address(l) => format!("{{\"t\":\"Addr\",\"l\":\"{}\"}}", l.get().as_str()),
        AvailableValue::RegisterWithScalar(r, k) => format!("{{\"t\":\"Rws\",\"r\":{},\"k\":{k}}}", r.to_num()),
        AvailableValue::OriginalRegisterWithScalar(r, k) => format!("{{\"t\":\"Orig\",\"r\":{},\"k\":{k}}}", r.to_num()),
        AvailableValue::ValueInCsr(c) => format!("{{\"t\":\"Vic\",\"n\":{}}}", c.value()),
        _ => "{\"t\":\"Other\"}".to_string(),
    }
}

fn regs_json(m: &AvailableValueMap<Register>) -> String {
    let mut items: Vec<(u8, String)> = m.iter().map(|(r, v)| (r.to_num(), value_json(v))).collect();
    items.sort();
    let body: Vec<String> = items.iter().map(|(r, v)| format!("[{r},{v}]")).collect();
    format!("[{}]", body.join(","))
}

fn mem_json(m: &AvailableValueMap<MemoryLocation>) -> String {
    let mut items: Vec<String> = m
        .iter()
        .map(|(l, v)| {
            let loc = match l {
                MemoryLocation::StackOffset(o) => format!("{{\"t\":\"Stack\",\"o\":{o}}}"),
                MemoryLocation::CsrRegister(c) => format!("{{\"t\":\"Csr\",\"n\":{}}}", c.value()),
                MemoryLocation::CsrRegisterValueOffset(c, o) => format!("{{\"t\":\"CsrMem\",\"n\":{},\"o\":{o}}}", c.value()),
            };
            format!("[{loc},{}]", value_json(v))
        })
        .collect();
    items.sort();
    format!("[{}]", items.join(","))
}

fn main() {
    let path = std::env::args().nth(1).expect("input file");
    let text = std::fs::read_to_string(path).expect("read");
    for prog in text.split("\n----\n") {
        let prog = prog.to_string();
        let result = std::panic::catch_unwind(move || {
            let (nodes, errs) = RVStringParser::parse_from_text(&prog);
            if !errs.is_empty() {
                return format!("{{\"error\":\"parse errors: {}\"}}", errs.len());
            }
            let cfg = match Manager::gen_full_cfg(nodes) {
                Ok(c) => c,
                Err(_) => return "{\"error\":\"cfg error\"}".to_string(),
            };
            let ids: Vec<uuid::Uuid> = cfg.iter().map(|n| n.id()).collect();
            let idx = |id: uuid::Uuid| ids.iter().position(|x| *x == id).map_or(-1, |p| p as i64);
            let mut out = Vec::new();
            for n in cfg.iter() {
                let pn: ParserNode = n.node();
                let kind = if pn.is_program_entry() {
                    "program_entry"
                } else if pn.is_function_entry() {
                    "func_entry"
                } else if pn.is_instruction() {
                    "inst"
                } else {
                    "other"
                };
                let inst = match node_meaning(&pn, 0) {
                    Some(i) if kind == "inst" => inst_json(&i),
                    _ => "null".to_string(),
                };
                let label = node_label(&pn).map_or("null".to_string(), |l| format!("\"{l}\""));
                let mut nexts: Vec<i64> = n.nexts().iter().map(|x| idx(x.id())).collect();
                nexts.sort();
                let mut prevs: Vec<i64> = n.prevs().iter().map(|x| idx(x.id())).collect();
                prevs.sort();
                let live_in: Vec<u8> = n.live_in().iter().map(Register::to_num).collect();
                let live_out: Vec<u8> = n.live_out().iter().map(Register::to_num).collect();
                // interprocedural coupling (C02): the function a call site resolves to with its inferred
                // argument / return registers, and where a function's exit is
                let regs = |s: RegisterSet| -> Vec<u8> { s.iter().map(Register::to_num).collect() };
                let (callee, call_args) = match n.calls_to_from_cfg(&cfg) {
                    Some((f, _)) if pn.calls_to().is_some() => (idx(f.entry().id()), regs(f.arguments())),
                    _ => (-1, vec![]),
                };
                let (fexit, fargs, frets) = match n.is_function_entry_with_func() {
                    Some(f) => (idx(f.exit().id()), regs(f.arguments()), regs(f.returns())),
                    None => (-1, vec![], vec![]),
                };
                let is_ret = pn.is_return();
                // labels attached to this node (C03: where a branch or jump to a label lands)
                let mut labels: Vec<String> = n.labels().iter().map(|l| format!("\"{}\"", l.get().as_str())).collect();
                labels.sort();
                let labels = format!("[{}]", labels.join(","));
                out.push(format!(
                    "{{\"kind\":\"{kind}\",\"labels\":{labels},\"callee\":{callee},\"call_args\":{call_args:?},\"fexit\":{fexit},\"fargs\":{fargs:?},\"frets\":{frets:?},\"is_ret\":{is_ret},\"text\":\"{}\",\"inst\":{inst},\"label\":{label},\"call\":{},\"nexts\":{nexts:?},\"prevs\":{prevs:?},\"live_in\":{live_in:?},\"live_out\":{live_out:?},\"rin\":{},\"rout\":{},\"min\":{},\"mout\":{}}}",
                    pn.to_string().replace('\\', "\\\\").replace('"', "'"),
                    pn.calls_to().is_some(),
                    regs_json(&n.reg_values_in()),
                    regs_json(&n.reg_values_out()),
                    mem_json(&n.memory_values_in()),
                    mem_json(&n.memory_values_out())
                ));
            }
            // the eleven lint passes must also get through the program without panicking (C06)
            let mut diags = DiagnosticManager::new();
            Manager::run_diagnostics(&cfg, &mut diags);
            format!("{{\"nodes\":[{}],\"diagnostics\":{}}}", out.join(","), diags.iter().count())
        });
        match result {
            Ok(s) => println!("{s}"),
            Err(_) => println!("{{\"error\":\"panic\"}}"),
        }
    }
}
