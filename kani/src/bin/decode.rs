//! Engine E3, native half: parse catalogue text with the REAL lexer and parser
//! and print what the resulting node(s) say, as JSON, one line per input line.
//!
//! usage: decode <file-with-one-statement-per-line>

use riscv_analysis::parser::{LexError, Lexer, ParserNode};
use rva_verif::ob_text::{node_label, node_meaning};
use rva_verif::rvref::RInst;

const LA_ADDR: &str = "\"LA_ADDR\"";

fn json(i: &RInst) -> String {
    match *i {
        RInst::Alu { op, rd, rs1, rs2 } => format!("{{\"k\":\"Alu\",\"op\":\"{op:?}\",\"rd\":{rd},\"rs1\":{rs1},\"rs2\":{rs2}}}"),
        RInst::AluImm { op, rd, rs1, imm } => format!("{{\"k\":\"AluImm\",\"op\":\"{op:?}\",\"rd\":{rd},\"rs1\":{rs1},\"imm\":{imm}}}"),
        RInst::Const { rd, value } => {
            if value == 0xDEAD_BEE0 {
                format!("{{\"k\":\"Const\",\"rd\":{rd},\"value\":{LA_ADDR}}}")
            } else {
                format!("{{\"k\":\"Const\",\"rd\":{rd},\"value\":{value}}}")
            }
        }
        RInst::Jal { rd } => format!("{{\"k\":\"Jal\",\"rd\":{rd}}}"),
        RInst::Jalr { rd, rs1, imm } => format!("{{\"k\":\"Jalr\",\"rd\":{rd},\"rs1\":{rs1},\"imm\":{imm}}}"),
        RInst::Branch { cond, rs1, rs2 } => format!("{{\"k\":\"Branch\",\"cond\":\"{cond:?}\",\"rs1\":{rs1},\"rs2\":{rs2}}}"),
        RInst::Load { width, signed, rd, rs1, imm } => {
            format!("{{\"k\":\"Load\",\"width\":\"{width:?}\",\"signed\":{signed},\"rd\":{rd},\"rs1\":{rs1},\"imm\":{imm}}}")
        }
        RInst::Store { width, rs1, rs2, imm } => format!("{{\"k\":\"Store\",\"width\":\"{width:?}\",\"rs1\":{rs1},\"rs2\":{rs2},\"imm\":{imm}}}"),
        RInst::Csr { op, rd, csr, rs1 } => format!("{{\"k\":\"Csr\",\"op\":\"{op:?}\",\"rd\":{rd},\"csr\":{csr},\"rs1\":{rs1}}}"),
        RInst::CsrImm { op, rd, csr, uimm } => format!("{{\"k\":\"CsrImm\",\"op\":\"{op:?}\",\"rd\":{rd},\"csr\":{csr},\"uimm\":{uimm}}}"),
        RInst::System => "{\"k\":\"System\"}".to_string(),
    }
}

fn main() {
    let path = std::env::args().nth(1).expect("input file");
    let text = std::fs::read_to_string(path).expect("read");
    for line in text.lines() {
        let src = format!("{line}\n");
        let result = std::panic::catch_unwind(|| {
            let mut lx = Lexer::new(src.as_str(), uuid::Uuid::nil()).peekable();
            let nodes: Result<Vec<ParserNode>, String> = match ParserNode::try_from(&mut lx) {
                Ok(n) => Ok(vec![n]),
                Err(LexError::NeedTwoNodes(a, b)) => Ok(vec![*a, *b]),
                Err(_) => Err("rejected".to_string()),
            };
            // anything left on the line besides the newline?
            let mut rest = 0;
            for t in lx.flatten() {
                // a trailing comment is not an operand
                if !matches!(t.token_type(), riscv_analysis::parser::TokenType::Newline | riscv_analysis::parser::TokenType::Comment(_)) {
                    rest += 1;
                }
            }
            (nodes, rest)
        });
        match result {
            Err(_) => println!("{{\"error\":\"panic\"}}"),
            Ok((Err(e), _)) => println!("{{\"error\":\"{e}\"}}"),
            Ok((Ok(nodes), rest)) => {
                let mut items = Vec::new();
                let mut labels = Vec::new();
                for n in &nodes {
                    match node_meaning(n, 0xDEAD_BEE0) {
                        Some(ri) => items.push(json(&ri)),
                        None => items.push("{\"k\":\"NoMeaning\"}".to_string()),
                    }
                    if let Some(l) = node_label(n) {
                        labels.push(format!("\"{l}\""));
                    }
                }
                println!("{{\"nodes\":[{}],\"labels\":[{}],\"unconsumed_tokens\":{}}}", items.join(","), labels.join(","), rest);
            }
        }
    }
}
