//! C17 / C06: numeric literals.
//!
//! Real code: `Imm::from_str`, `CsrImm::from_str`, `TryFrom<Token> for Imm`.
//! The *value* is symbolic; the harness renders it into a byte buffer in a
//! concrete notation template, so every digit is symbolic and the template
//! covers the whole value range of its length.
//!
//! Oracle (weakest reading of the property, DESIGN.md C17): with `val` the
//! mathematical value the spelling denotes,
//!   (1) accepted  =>  -2^31 <= val <= 2^32-1  and  result == val mod 2^32 (as i32);
//!   (2) -2^31 <= val <= 2^31-1  =>  accepted;
//!   (3) never a panic (checked by Kani on the real code).

use crate::src::Src;
use riscv_analysis::parser::{CsrImm, Imm, Token, TokenType, Range};
use std::str::FromStr;

const MIN32: i64 = -(1 << 31);
const MAX_S32: i64 = (1 << 31) - 1;
const MAX_U32: i64 = (1 << 32) - 1;

fn judge<S: Src>(s: &mut S, r: &Result<Imm, ()>, val: i64) {
    match r {
        Ok(imm) => {
            crate::seen!(true, "I:accepted");
            assert!(
                val >= MIN32 && val <= MAX_U32,
                "[C17] literal that does not fit in 32 bits was accepted"
            );
            assert!(
                imm.value() == (val as i32),
                "[C17] accepted literal read as a different value"
            );
        }
        Err(()) => {
            crate::seen!(true, "I:rejected");
            assert!(
                !(val >= MIN32 && val <= MAX_S32),
                "[C17] literal that fits in 32 bits was rejected"
            );
        }
    }
}

/// View `buf[start..]` as &str. All bytes are ASCII by construction.
fn ascii(buf: &[u8], start: usize) -> &str {
    // SAFETY: callers only put ASCII bytes into `buf`.
    unsafe { core::str::from_utf8_unchecked(&buf[start..]) }
}

fn hex_digit(d: u32, upper: bool) -> u8 {
    let d = (d & 15) as u8;
    if d < 10 {
        b'0' + d
    } else if upper {
        b'A' + (d - 10)
    } else {
        b'a' + (d - 10)
    }
}

/// `[-]0x` + N hex digits, every digit symbolic, either letter case.
fn hex_body<S: Src, const N: usize, const L: usize>(s: &mut S) {
    // L == N + 3
    let neg = s.bool();
    let v = s.u64();
    let case_mask = s.u32();
    let upper_x = s.bool();
    if N < 16 {
        s.assume(v < (1u64 << (4 * N)));
    }
    let mut buf = [0u8; L];
    buf[0] = b'-';
    buf[1] = b'0';
    buf[2] = if upper_x { b'X' } else { b'x' };
    let mut i = 0;
    while i < N {
        let d = ((v >> (4 * (N - 1 - i))) & 15) as u32;
        buf[3 + i] = hex_digit(d, (case_mask >> i) & 1 == 1);
        i += 1;
    }
    let r = if neg {
        Imm::from_str(ascii(&buf, 0))
    } else {
        Imm::from_str(ascii(&buf, 1))
    };
    let val = if neg { -(v as i64) } else { v as i64 };
    judge(s, &r, val);
    crate::witness!(true, "W:end of harness reached");
    core::mem::forget(r);
}

/// `[-]0b` + N binary digits (the bits are the symbolic inputs).
fn bin_body<S: Src, const N: usize, const L: usize>(s: &mut S) {
    let neg = s.bool();
    let upper_b = s.bool();
    let mut buf = [0u8; L];
    buf[0] = b'-';
    buf[1] = b'0';
    buf[2] = if upper_b { b'B' } else { b'b' };
    let mut v: i64 = 0;
    let mut i = 0;
    while i < N {
        let bit = s.bool();
        buf[3 + i] = if bit { b'1' } else { b'0' };
        v = (v << 1) | i64::from(bit);
        i += 1;
    }
    let r = if neg {
        Imm::from_str(ascii(&buf, 0))
    } else {
        Imm::from_str(ascii(&buf, 1))
    };
    let val = if neg { -v } else { v };
    judge(s, &r, val);
    crate::witness!(true, "W:end of harness reached");
    core::mem::forget(r);
}

/// `[-]` + N decimal digits; the DIGITS are the symbolic inputs and the value
/// is their Horner sum (dividing a symbolic 64-bit value by 10 stalls the SAT
/// back end; multiplying by 10 does not).
fn dec_body<S: Src, const N: usize, const L: usize>(s: &mut S) {
    // L == N + 1
    let neg = s.bool();
    let mut buf = [0u8; L];
    buf[0] = b'-';
    let mut v: i64 = 0;
    let mut i = 0;
    while i < N {
        let d = s.u8();
        s.assume(d < 10);
        buf[1 + i] = b'0' + d;
        v = v * 10 + i64::from(d);
        i += 1;
    }
    let r = if neg {
        Imm::from_str(ascii(&buf, 0))
    } else {
        Imm::from_str(ascii(&buf, 1))
    };
    let val = if neg { -v } else { v };
    judge(s, &r, val);
    crate::witness!(true, "W:end of harness reached");
    core::mem::forget(r);
}

/// `[-]214748dddd`: the 10 000 decimal values around 2^31, both signs.
fn dec_window<S: Src>(s: &mut S) {
    let neg = s.bool();
    let mut buf = [0u8; 11];
    buf[0] = b'-';
    let prefix = *b"214748";
    let mut v: i64 = 0;
    let mut i = 0;
    while i < 6 {
        buf[1 + i] = prefix[i];
        v = v * 10 + i64::from(prefix[i] - b'0');
        i += 1;
    }
    while i < 10 {
        let d = s.u8();
        s.assume(d < 10);
        buf[1 + i] = b'0' + d;
        v = v * 10 + i64::from(d);
        i += 1;
    }
    let r = if neg {
        Imm::from_str(ascii(&buf, 0))
    } else {
        Imm::from_str(ascii(&buf, 1))
    };
    let val = if neg { -v } else { v };
    crate::seen!(r.is_ok() && neg, "I:negative boundary value accepted");
    judge(s, &r, val);
    crate::witness!(true, "W:end of harness reached");
    core::mem::forget(r);
}

// (Cross-notation agreement follows from the value-exact oracle of each
// template: two accepted spellings of one value both read as val mod 2^32.)

// ---------------------------------------------------------------------------
// malformed spellings: N symbolic bytes over the lexer's symbol alphabet

fn is_symbol_byte(b: u8) -> bool {
    b.is_ascii_alphanumeric() || b == b'_' || b == b'-'
}

/// Reference recogniser of the literal grammar
///   lit := ['-'] ( dec+ | '0' [xX] hex+ | '0' [bB] bin+ | "zero" (any case) )
/// returning the denoted mathematical value (saturated far outside 32 bits).
fn reference_value(b: &[u8]) -> Option<i64> {
    let (neg, rest) = match b.first() {
        Some(b'-') => (true, &b[1..]),
        _ => (false, b),
    };
    if rest.is_empty() {
        return None;
    }
    let lower = |c: u8| c.to_ascii_lowercase();
    let mag: i64;
    if rest.len() == 4
        && lower(rest[0]) == b'z'
        && lower(rest[1]) == b'e'
        && lower(rest[2]) == b'r'
        && lower(rest[3]) == b'o'
    {
        mag = 0;
    } else if rest.len() > 2 && rest[0] == b'0' && lower(rest[1]) == b'x' {
        let mut acc: i64 = 0;
        let mut i = 2;
        while i < rest.len() {
            let c = lower(rest[i]);
            let d = if c.is_ascii_digit() {
                c - b'0'
            } else if (b'a'..=b'f').contains(&c) {
                c - b'a' + 10
            } else {
                return None;
            };
            acc = acc * 16 + i64::from(d);
            i += 1;
        }
        mag = acc;
    } else if rest.len() > 2 && rest[0] == b'0' && lower(rest[1]) == b'b' {
        let mut acc: i64 = 0;
        let mut i = 2;
        while i < rest.len() {
            let c = rest[i];
            if c != b'0' && c != b'1' {
                return None;
            }
            acc = acc * 2 + i64::from(c - b'0');
            i += 1;
        }
        mag = acc;
    } else {
        let mut acc: i64 = 0;
        let mut i = 0;
        while i < rest.len() {
            let c = rest[i];
            if !c.is_ascii_digit() {
                return None;
            }
            acc = acc * 10 + i64::from(c - b'0');
            i += 1;
        }
        mag = acc;
    }
    Some(if neg { -mag } else { mag })
}

fn malformed_body<S: Src, const N: usize>(s: &mut S) {
    let mut buf = [0u8; N];
    let mut i = 0;
    while i < N {
        let b = s.u8();
        s.assume(is_symbol_byte(b));
        buf[i] = b;
        i += 1;
    }
    let r = Imm::from_str(ascii(&buf, 0));
    match reference_value(&buf) {
        None => {
            crate::seen!(r.is_err(), "I:malformed rejected");
            assert!(r.is_err(), "[C17] malformed literal accepted");
        }
        Some(val) => judge(s, &r, val),
    }
    crate::witness!(true, "W:end of harness reached");
    core::mem::forget(r);
}

/// Character literal token: value is the code point.
fn char_token<S: Src>(s: &mut S) {
    let c = s.u32();
    s.assume(c < 0xD800 || (0xE000..0x11_0000).contains(&c));
    let ch = char::from_u32(c);
    if let Some(ch) = ch {
        let tok = Token::new_without_text(TokenType::Char(ch), Range::default(), uuid::Uuid::nil());
        let r = Imm::try_from(tok);
        crate::witness!(r.is_ok(), "W:char accepted");
        assert!(r.is_ok(), "[C17] character literal rejected");
        if let Ok(imm) = &r {
            assert!(imm.value() == c as i32, "[C17] character literal read as a different value");
        }
        core::mem::forget(r);
    }
}

/// CSR immediates: a numeric CSR operand is the same number as an Imm.
fn csr_hex3<S: Src>(s: &mut S) {
    let v = s.u32();
    s.assume(v < 0x1000);
    let mut buf = [0u8; 5];
    buf[0] = b'0';
    buf[1] = b'x';
    buf[2] = hex_digit(v >> 8, false);
    buf[3] = hex_digit(v >> 4, true);
    buf[4] = hex_digit(v, false);
    let r = CsrImm::from_str(ascii(&buf, 0));
    crate::witness!(r.is_ok(), "W:csr accepted");
    assert!(r.is_ok(), "[C17] numeric CSR operand rejected");
    if let Ok(c) = r {
        assert!(c.value() == v, "[C17] numeric CSR operand read as a different value");
    }
}

crate::obligations! {
    #[kani::stub(str::to_lowercase, crate::stubs::ascii_lowercase)]
    #[kani::unwind(13)]
    fn imm_hex8(s) { hex_body::<S, 8, 11>(s) }

    #[kani::stub(str::to_lowercase, crate::stubs::ascii_lowercase)]
    #[kani::unwind(13)]
    fn imm_hex9(s) { hex_body::<S, 9, 12>(s) }

    #[kani::stub(str::to_lowercase, crate::stubs::ascii_lowercase)]
    #[kani::unwind(13)]
    fn imm_hex1(s) { hex_body::<S, 1, 4>(s) }

    #[kani::stub(str::to_lowercase, crate::stubs::ascii_lowercase)]
    #[kani::unwind(13)]
    fn imm_hex4(s) { hex_body::<S, 4, 7>(s) }

    #[kani::stub(str::to_lowercase, crate::stubs::ascii_lowercase)]
    #[kani::unwind(37)]
    fn imm_bin32(s) { bin_body::<S, 32, 35>(s) }

    #[kani::stub(str::to_lowercase, crate::stubs::ascii_lowercase)]
    #[kani::unwind(38)]
    fn imm_bin33(s) { bin_body::<S, 33, 36>(s) }

    #[kani::stub(str::to_lowercase, crate::stubs::ascii_lowercase)]
    #[kani::unwind(13)]
    fn imm_bin5(s) { bin_body::<S, 5, 8>(s) }

    #[kani::stub(str::to_lowercase, crate::stubs::ascii_lowercase)]
    #[kani::unwind(20)]
    fn imm_bin16(s) { bin_body::<S, 16, 19>(s) }

    #[kani::stub(str::to_lowercase, crate::stubs::ascii_lowercase)]
    #[kani::unwind(13)]
    fn imm_dec10(s) { dec_body::<S, 10, 11>(s) }

    #[kani::stub(str::to_lowercase, crate::stubs::ascii_lowercase)]
    #[kani::unwind(13)]
    fn imm_dec3(s) { dec_body::<S, 3, 4>(s) }

    #[kani::stub(str::to_lowercase, crate::stubs::ascii_lowercase)]
    #[kani::unwind(13)]
    fn imm_dec9(s) { dec_body::<S, 9, 10>(s) }

    #[kani::stub(str::to_lowercase, crate::stubs::ascii_lowercase)]
    #[kani::unwind(13)]
    fn imm_dec10_window(s) { dec_window(s) }

    #[kani::stub(str::to_lowercase, crate::stubs::ascii_lowercase)]
    #[kani::unwind(13)]
    fn imm_dec6(s) { dec_body::<S, 6, 7>(s) }

    #[kani::stub(str::to_lowercase, crate::stubs::ascii_lowercase)]
    #[kani::unwind(13)]
    fn imm_dec11(s) { dec_body::<S, 11, 12>(s) }

    #[kani::stub(str::to_lowercase, crate::stubs::ascii_lowercase)]
    #[kani::unwind(8)]
    fn imm_malformed1(s) { malformed_body::<S, 1>(s) }
    #[kani::stub(str::to_lowercase, crate::stubs::ascii_lowercase)]
    #[kani::unwind(8)]
    fn imm_malformed2(s) { malformed_body::<S, 2>(s) }
    #[kani::stub(str::to_lowercase, crate::stubs::ascii_lowercase)]
    #[kani::unwind(8)]
    fn imm_malformed3(s) { malformed_body::<S, 3>(s) }
    #[kani::stub(str::to_lowercase, crate::stubs::ascii_lowercase)]
    #[kani::unwind(8)]
    fn imm_malformed4(s) { malformed_body::<S, 4>(s) }
    #[kani::stub(str::to_lowercase, crate::stubs::ascii_lowercase)]
    #[kani::unwind(8)]
    fn imm_malformed5(s) { malformed_body::<S, 5>(s) }
    #[kani::stub(str::to_lowercase, crate::stubs::ascii_lowercase)]
    #[kani::unwind(8)]
    fn imm_malformed6(s) { malformed_body::<S, 6>(s) }

    fn imm_char_token(s) { char_token(s) }

    #[kani::stub(str::to_lowercase, crate::stubs::ascii_lowercase)]
    #[kani::unwind(13)]
    fn imm_csr_hex3(s) { csr_hex3(s) }
}
