//! C01.b / C01.e: facts generated per instruction, the meet and the seeding.
//!
//! gamma (DESIGN.md section 4): a fact attached to register r after an
//! instruction is TRUE in post-state (E = entry register file, R' = current):
//!   Constant(c)                      R'[r] == c
//!   OriginalRegisterWithScalar(q,k)  R'[r] == E[q] + k   (mod 2^32)
//!   Address(l)                       R'[r] == address of l
//!   MemoryAtRegister(b,o)            R'[r] == the 32-bit word at R[b] + o   (R: pre-state)
//! and a stack fact  StackOffset(o) -> RegisterWithScalar(q,0)  is true when the
//! 32-bit word at E[sp] + o equals R'[q].

use crate::mk::{self, Kind};
use crate::ob_props::meaning;
use crate::ob_regs::{ARG, RA, SAVED, SP};
use crate::rvref::{self, RInst, RegRead, Width, RF};
use crate::src::Src;
use riscv_analysis::analysis::{AvailableValue, HasGenValueInfo, MemoryLocation};
use riscv_analysis::cfg::AvailableValueMap;
use riscv_analysis::parser::{HasRegisterSets, Register};

pub const LA_ADDR: u32 = 0x1001_0040;

/// Sign/zero extension a load applies to the addressed word `w` (little endian, low bytes).
pub fn load_result(width: Width, signed: bool, w: u32) -> u32 {
    match (width, signed) {
        (Width::W, _) => w,
        (Width::H, true) => (w as u16) as i16 as i32 as u32,
        (Width::H, false) => u32::from(w as u16),
        (Width::B, true) => (w as u8) as i8 as i32 as u32,
        (Width::B, false) => u32::from(w as u8),
    }
}

/// The word at the store address after the store, given the word before.
pub fn store_result(width: Width, old: u32, v: u32) -> u32 {
    match width {
        Width::W => v,
        Width::H => (old & 0xffff_0000) | (v & 0xffff),
        Width::B => (old & 0xffff_ff00) | (v & 0xff),
    }
}

/// gamma for a register fact; None = a variant the property makes no claim about.
pub fn gamma_reg<E: RegRead, C: RegRead>(v: &AvailableValue, r: u8, entry: &E, cur: &C) -> Option<bool> {
    match v {
        AvailableValue::Constant(c) => Some(cur.get(r) == *c as u32),
        AvailableValue::OriginalRegisterWithScalar(q, k) => Some(cur.get(r) == entry.get(q.to_num()).wrapping_add(*k as u32)),
        AvailableValue::Address(_) => Some(cur.get(r) == LA_ADDR),
        // "r holds the CURRENT value of q plus k" (how a value restored from a stack slot is described)
        AvailableValue::RegisterWithScalar(q, k) => Some(cur.get(r) == cur.get(q.to_num()).wrapping_add(*k as u32)),
        _ => None,
    }
}

/// Symbolic register file binding the given registers (and one shared value for all others).
pub fn draw_rf<S: Src>(s: &mut S, keys: &[u8]) -> RF {
    let mut rf = RF::new(s.u32());
    let mut i = 0;
    while i < keys.len() && i < 6 {
        let v = s.u32();
        rf.set(keys[i], v);
        i += 1;
    }
    rf
}

/// `zero_sources`: fix rs1 = rs2 = x0 (the only shape for which register-form
/// arithmetic generates a fact; with concrete zero operands the reference ALU
/// folds per operator instead of building multiplier/divider circuits).
fn gen_reg<S: Src>(s: &mut S, kind: Kind, zero_sources: bool) {
    let mut f = mk::draw_fields(s, kind);
    if zero_sources {
        f.rs1 = 0;
        f.rs2 = 0;
    } else if kind == Kind::Arith {
        s.assume(f.rs1 != 0 || f.rs2 != 0);
    }
    let node = mk::build(&f);
    let keys = [f.rd, f.rs1, f.rs2];
    let entry = draw_rf(s, &keys);
    let pre = draw_rf(s, &keys);
    let word = s.u32(); // the aligned memory word a load addresses
    let g = node.gen_reg_value();
    if let (Some((reg, val)), Some(ri)) = (&g, meaning(&f, LA_ADDR)) {
        crate::seen!(true, "I:a fact is generated");
        assert!(*reg != Register::X0, "[C01] a fact is generated for x0");
        assert!(Some(reg.to_num()) == rvref::arch_writes(&ri), "[C01] fact generated for a register the instruction does not write");
        let mut post = pre;
        let eff = if kind == Kind::Arith && !zero_sources {
            rvref::effect(&RInst::System, &pre, 0x400)
        } else {
            rvref::effect(&ri, &pre, 0x400)
        };
        let written = match ri {
            RInst::Load { width, signed, .. } => load_result(width, signed, word),
            _ => eff.rd_value.unwrap_or(word),
        };
        post.set(reg.to_num(), written);
        if let Some(ok) = gamma_reg(val, reg.to_num(), &entry, &post) {
            crate::seen!(true, "I:a claimed kind of fact is generated");
            assert!(ok, "[C01] generated register fact is false for some machine state");
        }
        if let AvailableValue::MemoryAtRegister(b, o) = val {
            // claims: rd holds the 32-bit word at R[b] + o
            assert!(
                Some(pre.get(b.to_num()).wrapping_add(*o as u32)) == eff.addr,
                "[C01] MemoryAtRegister names a different address than the load uses"
            );
            assert!(post.get(reg.to_num()) == word, "[C01] MemoryAtRegister claimed for a load that does not deliver the whole word");
        }
    }
    if g.is_none() {
        crate::seen!(true, "I:no fact generated");
    }
    if kind == Kind::Arith && !zero_sources {
        assert!(g.is_none(), "[C01] register-form arithmetic on unknown operands generates a fact");
    }
    crate::witness!(true, "W:end");
    core::mem::forget((node, g));
}

fn gen_mem_store<S: Src>(s: &mut S) {
    let f = mk::draw_fields(s, Kind::Store);
    let node = mk::build(&f);
    let pre = draw_rf(s, &[f.rs1, f.rs2]);
    let old_word = s.u32();
    let g = node.gen_memory_value();
    let ri = meaning(&f, LA_ADDR);
    if let (Some((loc, val)), Some(RInst::Store { width, rs1, rs2, imm })) = (&g, ri) {
        crate::seen!(true, "I:a stack fact is generated");
        assert!(rs1 == 2, "[C01] stack fact generated for a store that is not sp-relative");
        // run() records the fact at  (offset of sp from entry) + o ; relative to the
        // CURRENT sp the slot is at o, which must be the address the store writes
        match loc {
            MemoryLocation::StackOffset(o) => assert!(*o == imm, "[C01] stack fact at a different offset than the store"),
            _ => assert!(false, "[C01] sp-relative store generates a non-stack location"),
        }
        match val {
            AvailableValue::RegisterWithScalar(q, k) => {
                assert!(q.to_num() == rs2 && *k == 0, "[C01] stack fact names a different register than the one stored");
                let new_word = store_result(width, old_word, pre.get(rs2));
                assert!(new_word == pre.get(q.to_num()), "[C01] stack slot claimed to hold a register after a store that does not write the whole word");
            }
            _ => assert!(false, "[C01] unexpected kind of stack fact"),
        }
    }
    crate::witness!(true, "W:end");
    core::mem::forget((node, g));
}

fn gen_mem_csr<S: Src>(s: &mut S, kind: Kind) {
    // csrrw: CSR := R[rs1];  csrrwi: CSR := uimm.  Other CSR ops must not claim the CSR content.
    let f = mk::draw_fields(s, kind);
    let node = mk::build(&f);
    let g = node.gen_memory_value();
    if let Some((loc, val)) = &g {
        crate::seen!(true, "I:a CSR fact is generated");
        assert!(f.op % 3 == 0, "[C01] CSR content claimed after a set/clear-bits CSR instruction");
        assert!(matches!(loc, MemoryLocation::CsrRegister(c) if c.value() == f.csr), "[C01] CSR fact for a different CSR");
        match val {
            AvailableValue::RegisterWithScalar(q, k) => {
                assert!(kind == Kind::Csr && q.to_num() == f.rs1 && *k == 0, "[C01] CSR fact names a different register than the one written");
            }
            AvailableValue::Constant(c) => {
                assert!(kind == Kind::CsrI && *c == f.imm, "[C01] CSR fact constant differs from the immediate written");
            }
            _ => assert!(false, "[C01] unexpected kind of CSR fact"),
        }
    }
    crate::witness!(true, "W:end");
    core::mem::forget((node, g));
}

fn gen_mem_none<S: Src>(s: &mut S, kind: Kind) {
    let f = mk::draw_fields(s, kind);
    let node = mk::build(&f);
    let g = node.gen_memory_value();
    assert!(g.is_none(), "[C01] memory fact generated by an instruction that writes no memory");
    crate::witness!(true, "W:end");
    core::mem::forget((node, g));
}

/// Seeding: `set.into_available_values()` is exactly r -> OriginalRegisterWithScalar(r, 0)
/// (the two small seed sets of the transfer function; probe register symbolic).
fn seeding<S: Src>(s: &mut S) {
    let which = s.bool();
    let r = s.reg();
    let (set, mask) = if which { (Register::sp_ra_set(), RA | SP) } else { (Register::program_args_set(), 0b11 << 10) };
    let map = set.into_available_values();
    let reg = mk::reg(r);
    match map.get(&reg) {
        Some(AvailableValue::OriginalRegisterWithScalar(q, 0)) => {
            assert!(*q == reg, "[C01] seeded value names a different register");
            assert!((mask >> r) & 1 == 1, "[C01] register outside the set was seeded");
        }
        Some(_) => assert!(false, "[C01] seeded value is not 'original register + 0'"),
        None => assert!((mask >> r) & 1 == 0, "[C01] register of the set was not seeded"),
    }
    assert!(map.len() == 2, "[C01] seeding yields a different number of facts than registers");
    let _ = (ARG, SAVED);
    crate::witness!(true, "W:end");
    core::mem::forget(map);
}

/// Plain description of a fact value (so that the harness never has to clone a map).
#[derive(Clone, Copy, PartialEq, Eq)]
struct Spec {
    present: bool,
    kind: u8,
    payload: i32,
    sp: bool,
}

fn draw_spec<S: Src>(s: &mut S, always: bool) -> Spec {
    let present = if always { true } else { s.bool() };
    Spec { present, kind: s.choice(3), payload: s.i32(), sp: s.bool() }
}

fn make(v: &Spec) -> AvailableValue {
    let q = if v.sp { Register::X2 } else { Register::X8 };
    match v.kind {
        0 => AvailableValue::Constant(v.payload),
        1 => AvailableValue::OriginalRegisterWithScalar(q, v.payload),
        _ => AvailableValue::RegisterWithScalar(q, v.payload),
    }
}

fn same(a: &Spec, b: &Spec) -> bool {
    a.kind == b.kind && a.payload == b.payload && (a.kind == 0 || a.sp == b.sp)
}

fn matches_spec(v: &AvailableValue, sp: &Spec) -> bool {
    let q = if sp.sp { Register::X2 } else { Register::X8 };
    match (v, sp.kind) {
        (AvailableValue::Constant(c), 0) => *c == sp.payload,
        (AvailableValue::OriginalRegisterWithScalar(r, c), 1) => *r == q && *c == sp.payload,
        (AvailableValue::RegisterWithScalar(r, c), 2) => *r == q && *c == sp.payload,
        _ => false,
    }
}

/// Meet: `a &= &b` keeps exactly the keys bound to EQUAL values in both maps.
fn meet<S: Src>(s: &mut S) {
    let keys = [Register::X2, Register::X5];
    let sa = [draw_spec(s, true), draw_spec(s, false)];
    let sb = [draw_spec(s, true), draw_spec(s, false)];
    let mut a: AvailableValueMap<Register> = AvailableValueMap::new();
    let mut b: AvailableValueMap<Register> = AvailableValueMap::new();
    let mut i = 0;
    while i < 2 {
        if sa[i].present {
            a.insert(keys[i], make(&sa[i]));
        }
        if sb[i].present {
            b.insert(keys[i], make(&sb[i]));
        }
        i += 1;
    }
    a &= &b;
    let mut i = 0;
    while i < 2 {
        let both_equal = sa[i].present && sb[i].present && same(&sa[i], &sb[i]);
        match a.get(&keys[i]) {
            Some(v) => {
                crate::seen!(true, "I:a key survives the meet");
                assert!(both_equal, "[C01] meet keeps a fact that is not in both predecessors with the same value");
                assert!(matches_spec(v, &sa[i]), "[C01] meet changes a value");
            }
            None => assert!(!both_equal, "[C01,C12] meet drops a fact both predecessors agree on"),
        }
        i += 1;
    }
    crate::witness!(true, "W:end");
    core::mem::forget((a, b));
}

/// `map -= registers` removes exactly those keys (the kill step of the transfer function).
fn kill_step<S: Src>(s: &mut S) {
    let keys = [Register::X2, Register::X5];
    let sa = [draw_spec(s, true), draw_spec(s, false)];
    let mut a: AvailableValueMap<Register> = AvailableValueMap::new();
    let mut i = 0;
    while i < 2 {
        if sa[i].present {
            a.insert(keys[i], make(&sa[i]));
        }
        i += 1;
    }
    let r = s.reg();
    let set = riscv_analysis::cfg::RegisterSet::from_register(mk::reg(r));
    a -= set.iter();
    let mut i = 0;
    while i < 2 {
        let k = keys[i];
        match a.get(&k) {
            Some(v) => {
                assert!(k.to_num() != r, "[C01] kill leaves a fact about the overwritten register");
                assert!(sa[i].present && matches_spec(v, &sa[i]), "[C01] kill changes a fact about another register");
            }
            None => assert!(k.to_num() == r || !sa[i].present, "[C01] kill removes a fact about another register"),
        }
        i += 1;
    }
    crate::witness!(true, "W:end");
    core::mem::forget(a);
}

crate::obligations! {
    #[kani::stub(uuid::Uuid::new_v4, crate::stubs::uuid_counter)]
    #[kani::unwind(9)]
    fn gen_reg_arith(s) { gen_reg(s, Kind::Arith, false) }
    #[kani::stub(uuid::Uuid::new_v4, crate::stubs::uuid_counter)]
    #[kani::unwind(9)]
    fn gen_reg_arith_zero(s) { gen_reg(s, Kind::Arith, true) }
    #[kani::stub(uuid::Uuid::new_v4, crate::stubs::uuid_counter)]
    #[kani::unwind(9)]
    fn gen_reg_iarith(s) { gen_reg(s, Kind::IArith, false) }
    #[kani::stub(uuid::Uuid::new_v4, crate::stubs::uuid_counter)]
    #[kani::unwind(9)]
    fn gen_reg_load(s) { gen_reg(s, Kind::Load, false) }
    #[kani::stub(uuid::Uuid::new_v4, crate::stubs::uuid_counter)]
    #[kani::unwind(9)]
    fn gen_reg_la(s) { gen_reg(s, Kind::La, false) }
    #[kani::stub(uuid::Uuid::new_v4, crate::stubs::uuid_counter)]
    #[kani::unwind(9)]
    fn gen_reg_jal(s) { gen_reg(s, Kind::Jal, false) }
    #[kani::stub(uuid::Uuid::new_v4, crate::stubs::uuid_counter)]
    #[kani::unwind(9)]
    fn gen_reg_jalr(s) { gen_reg(s, Kind::Jalr, false) }
    #[kani::stub(uuid::Uuid::new_v4, crate::stubs::uuid_counter)]
    #[kani::unwind(9)]
    fn gen_reg_csr(s) { gen_reg(s, Kind::Csr, false) }
    #[kani::stub(uuid::Uuid::new_v4, crate::stubs::uuid_counter)]
    #[kani::unwind(9)]
    fn gen_reg_csri(s) { gen_reg(s, Kind::CsrI, false) }
    #[kani::stub(uuid::Uuid::new_v4, crate::stubs::uuid_counter)]
    #[kani::unwind(9)]
    fn gen_reg_store(s) { gen_reg(s, Kind::Store, false) }
    #[kani::stub(uuid::Uuid::new_v4, crate::stubs::uuid_counter)]
    #[kani::unwind(9)]
    fn gen_reg_branch(s) { gen_reg(s, Kind::Branch, false) }

    #[kani::stub(uuid::Uuid::new_v4, crate::stubs::uuid_counter)]
    #[kani::unwind(9)]
    fn gen_mem_store_sp(s) { gen_mem_store(s) }
    #[kani::stub(uuid::Uuid::new_v4, crate::stubs::uuid_counter)]
    #[kani::unwind(9)]
    fn gen_mem_csrrw(s) { gen_mem_csr(s, Kind::Csr) }
    #[kani::stub(uuid::Uuid::new_v4, crate::stubs::uuid_counter)]
    #[kani::unwind(9)]
    fn gen_mem_csrrwi(s) { gen_mem_csr(s, Kind::CsrI) }
    #[kani::stub(uuid::Uuid::new_v4, crate::stubs::uuid_counter)]
    #[kani::unwind(9)]
    fn gen_mem_none_arith(s) { gen_mem_none(s, Kind::Arith) }
    #[kani::stub(uuid::Uuid::new_v4, crate::stubs::uuid_counter)]
    #[kani::unwind(9)]
    fn gen_mem_none_load(s) { gen_mem_none(s, Kind::Load) }
    #[kani::stub(uuid::Uuid::new_v4, crate::stubs::uuid_counter)]
    #[kani::unwind(9)]
    fn gen_mem_none_jal(s) { gen_mem_none(s, Kind::Jal) }

    #[kani::unwind(34)]
    fn gen_seeding(s) { seeding(s) }
    #[kani::unwind(8)]
    fn gen_meet(s) { meet(s) }
    #[kani::unwind(34)]
    fn gen_kill_step(s) { kill_step(s) }
}
