//! C01.b / C01.e: facts generated per instruction, the meet and the seeding.
//!
//! gamma (DESIGN.md section 4): a fact attached to register r after an
//! instruction is TRUE in post-state (E = entry register file, R' = current):
//!   Constant(c)                      R'[r] == c
//!   OriginalRegisterWithScalar(q,k)  R'[r] == E[q] + k   (mod 2^32)
//!   Address(l)                       R'[r] == address of l
//!   MemoryAtRegister(b,o)            R'[r] == the 32-bit word at R[b] + o   (R: pre-state)
//! and a stack fact  StackOffset(o) -> RegisterWithScalar(q,0)  is true when the
//! 32-bit word at E[sp] + o equals R'[q].

use crate::mk::{self, Kind};
use crate::ob_props::{draw_regs, meaning};
use crate::ob_regs::{ARG, RA, SAVED, SP};
use crate::rvref::{self, RInst, Regs, Width};
use crate::src::Src;
use riscv_analysis::analysis::{AvailableValue, HasGenValueInfo, MemoryLocation};
use riscv_analysis::cfg::AvailableValueMap;
use riscv_analysis::parser::{HasRegisterSets, Register};

pub const LA_ADDR: u32 = 0x1001_0040;

/// Sign/zero extension a load applies to the addressed word `w` (little endian, low bytes).
pub fn load_result(width: Width, signed: bool, w: u32) -> u32 {
    match (width, signed) {
        (Width::W, _) => w,
        (Width::H, true) => (w as u16) as i16 as i32 as u32,
        (Width::H, false) => u32::from(w as u16),
        (Width::B, true) => (w as u8) as i8 as i32 as u32,
        (Width::B, false) => u32::from(w as u8),
    }
}

/// The word at the store address after the store, given the word before.
pub fn store_result(width: Width, old: u32, v: u32) -> u32 {
    match width {
        Width::W => v,
        Width::H => (old & 0xffff_0000) | (v & 0xffff),
        Width::B => (old & 0xffff_ff00) | (v & 0xff),
    }
}

/// gamma for a register fact; None = a variant the property makes no claim about.
pub fn gamma_reg(v: &AvailableValue, r: u8, entry: &Regs, cur: &Regs) -> Option<bool> {
    match v {
        AvailableValue::Constant(c) => Some(cur.get(r) == *c as u32),
        AvailableValue::OriginalRegisterWithScalar(q, k) => Some(cur.get(r) == entry.get(q.to_num()).wrapping_add(*k as u32)),
        AvailableValue::Address(_) => Some(cur.get(r) == LA_ADDR),
        _ => None,
    }
}

fn gen_reg<S: Src>(s: &mut S, kind: Kind) {
    let f = mk::draw_fields(s, kind);
    let node = mk::build(&f);
    let entry = draw_regs(s);
    let pre = draw_regs(s);
    let word = s.u32(); // the aligned memory word a load addresses
    let g = node.gen_reg_value();
    if let (Some((reg, val)), Some(ri)) = (&g, meaning(&f, LA_ADDR)) {
        crate::seen!(true, "I:a fact is generated");
        assert!(*reg != Register::X0, "[C01] a fact is generated for x0");
        assert!(Some(reg.to_num()) == rvref::arch_writes(&ri), "[C01] fact generated for a register the instruction does not write");
        let mut post = pre;
        let eff = rvref::effect(&ri, &pre, 0x400);
        let written = match ri {
            RInst::Load { width, signed, .. } => load_result(width, signed, word),
            _ => eff.rd_value.unwrap_or(word),
        };
        post.set(reg.to_num(), written);
        if let Some(ok) = gamma_reg(val, reg.to_num(), &entry, &post) {
            crate::seen!(true, "I:a claimed kind of fact is generated");
            assert!(ok, "[C01] generated register fact is false for some machine state");
        }
        if let AvailableValue::MemoryAtRegister(b, o) = val {
            // claims: rd holds the 32-bit word at R[b] + o
            assert!(
                Some(pre.get(b.to_num()).wrapping_add(*o as u32)) == eff.addr,
                "[C01] MemoryAtRegister names a different address than the load uses"
            );
            assert!(post.get(reg.to_num()) == word, "[C01] MemoryAtRegister claimed for a load that does not deliver the whole word");
        }
    }
    if g.is_none() {
        crate::seen!(true, "I:no fact generated");
    }
    crate::witness!(true, "W:end");
    core::mem::forget((node, g));
}

fn gen_mem_store<S: Src>(s: &mut S) {
    let f = mk::draw_fields(s, Kind::Store);
    let node = mk::build(&f);
    let pre = draw_regs(s);
    let old_word = s.u32();
    let g = node.gen_memory_value();
    let ri = meaning(&f, LA_ADDR);
    if let (Some((loc, val)), Some(RInst::Store { width, rs1, rs2, imm })) = (&g, ri) {
        crate::seen!(true, "I:a stack fact is generated");
        assert!(rs1 == 2, "[C01] stack fact generated for a store that is not sp-relative");
        // run() records the fact at  (offset of sp from entry) + o ; relative to the
        // CURRENT sp the slot is at o, which must be the address the store writes
        match loc {
            MemoryLocation::StackOffset(o) => assert!(*o == imm, "[C01] stack fact at a different offset than the store"),
            _ => assert!(false, "[C01] sp-relative store generates a non-stack location"),
        }
        match val {
            AvailableValue::RegisterWithScalar(q, k) => {
                assert!(q.to_num() == rs2 && *k == 0, "[C01] stack fact names a different register than the one stored");
                let new_word = store_result(width, old_word, pre.get(rs2));
                assert!(new_word == pre.get(q.to_num()), "[C01] stack slot claimed to hold a register after a store that does not write the whole word");
            }
            _ => assert!(false, "[C01] unexpected kind of stack fact"),
        }
    }
    crate::witness!(true, "W:end");
    core::mem::forget((node, g));
}

fn gen_mem_csr<S: Src>(s: &mut S, kind: Kind) {
    // csrrw: CSR := R[rs1];  csrrwi: CSR := uimm.  Other CSR ops must not claim the CSR content.
    let f = mk::draw_fields(s, kind);
    let node = mk::build(&f);
    let pre = draw_regs(s);
    let g = node.gen_memory_value();
    if let Some((loc, val)) = &g {
        crate::seen!(true, "I:a CSR fact is generated");
        assert!(f.op % 3 == 0, "[C01] CSR content claimed after a set/clear-bits CSR instruction");
        assert!(matches!(loc, MemoryLocation::CsrRegister(c) if c.value() == f.csr), "[C01] CSR fact for a different CSR");
        match val {
            AvailableValue::RegisterWithScalar(q, k) => {
                assert!(kind == Kind::Csr && q.to_num() == f.rs1 && *k == 0, "[C01] CSR fact names a different register than the one written");
            }
            AvailableValue::Constant(c) => {
                assert!(kind == Kind::CsrI && *c == f.imm, "[C01] CSR fact constant differs from the immediate written");
            }
            _ => assert!(false, "[C01] unexpected kind of CSR fact"),
        }
    }
    let _ = pre;
    crate::witness!(true, "W:end");
    core::mem::forget((node, g));
}

fn gen_mem_none<S: Src>(s: &mut S, kind: Kind) {
    let f = mk::draw_fields(s, kind);
    let node = mk::build(&f);
    let g = node.gen_memory_value();
    assert!(g.is_none(), "[C01] memory fact generated by an instruction that writes no memory");
    crate::witness!(true, "W:end");
    core::mem::forget((node, g));
}

/// Seeding: `set.into_available_values()` is exactly r -> OriginalRegisterWithScalar(r, 0).
fn seeding<S: Src>(s: &mut S) {
    let which = s.choice(3);
    let r = s.reg();
    let (set, mask) = match which {
        0 => (Register::callee_saved_set(), SAVED | RA | SP),
        1 => (Register::sp_ra_set(), RA | SP),
        _ => (Register::all_writable_set(), !1u32),
    };
    let _ = ARG;
    let map = set.into_available_values();
    let reg = mk::reg(r);
    match map.get(&reg) {
        Some(AvailableValue::OriginalRegisterWithScalar(q, 0)) => {
            assert!(*q == reg, "[C01] seeded value names a different register");
            assert!((mask >> r) & 1 == 1, "[C01] register outside the set was seeded");
        }
        Some(_) => assert!(false, "[C01] seeded value is not 'original register + 0'"),
        None => assert!((mask >> r) & 1 == 0, "[C01] register of the set was not seeded"),
    }
    crate::witness!(true, "W:end");
    core::mem::forget(map);
}

/// A small map on concrete registers with symbolic payloads.
fn draw_value<S: Src>(s: &mut S) -> AvailableValue {
    let k = s.choice(4);
    let x = s.i32();
    let q = s.choice(3);
    let qreg = [Register::X2, Register::X8, Register::X5][q as usize % 3];
    match k {
        0 => AvailableValue::Constant(x),
        1 => AvailableValue::OriginalRegisterWithScalar(qreg, x),
        2 => AvailableValue::RegisterWithScalar(qreg, x),
        _ => AvailableValue::MemoryAtOriginalRegister(qreg, x),
    }
}

/// Meet: `a &= &b` keeps exactly the keys bound to EQUAL values in both maps.
fn meet<S: Src>(s: &mut S) {
    let keys = [Register::X2, Register::X5, Register::X10];
    let mut a: AvailableValueMap<Register> = AvailableValueMap::new();
    let mut b: AvailableValueMap<Register> = AvailableValueMap::new();
    let mut i = 0;
    while i < 3 {
        if s.bool() {
            a.insert(keys[i], draw_value(s));
        }
        if s.bool() {
            b.insert(keys[i], draw_value(s));
        }
        i += 1;
    }
    let a0 = a.clone();
    a &= &b;
    let mut i = 0;
    while i < 3 {
        let k = keys[i];
        let both_equal = match (a0.get(&k), b.get(&k)) {
            (Some(x), Some(y)) => x == y,
            _ => false,
        };
        match a.get(&k) {
            Some(v) => {
                crate::seen!(true, "I:a key survives the meet");
                assert!(both_equal, "[C01] meet keeps a fact that is not in both predecessors with the same value");
                assert!(a0.get(&k) == Some(v), "[C01] meet changes a value");
            }
            None => assert!(!both_equal, "[C01,C12] meet drops a fact both predecessors agree on"),
        }
        i += 1;
    }
    assert!(a.len() <= a0.len() && a.len() <= b.len(), "[C01] meet is larger than an operand");
    crate::witness!(true, "W:end");
    core::mem::forget((a, b, a0));
}

/// `map -= registers` removes exactly those keys (the kill step of the transfer function).
fn kill_step<S: Src>(s: &mut S) {
    let keys = [Register::X2, Register::X5, Register::X10];
    let mut a: AvailableValueMap<Register> = AvailableValueMap::new();
    let mut i = 0;
    while i < 3 {
        if s.bool() {
            a.insert(keys[i], draw_value(s));
        }
        i += 1;
    }
    let a0 = a.clone();
    let r = s.reg();
    let set = riscv_analysis::cfg::RegisterSet::from_register(mk::reg(r));
    a -= set.iter();
    let mut i = 0;
    while i < 3 {
        let k = keys[i];
        if k.to_num() == r {
            assert!(a.get(&k).is_none(), "[C01] kill leaves a fact about the overwritten register");
        } else {
            assert!(a.get(&k) == a0.get(&k), "[C01] kill changes a fact about another register");
        }
        i += 1;
    }
    crate::witness!(true, "W:end");
    core::mem::forget((a, a0));
}

crate::obligations! {
    #[kani::stub(uuid::Uuid::new_v4, crate::stubs::uuid_counter)]
    #[kani::unwind(34)]
    fn gen_reg_arith(s) { gen_reg(s, Kind::Arith) }
    #[kani::stub(uuid::Uuid::new_v4, crate::stubs::uuid_counter)]
    #[kani::unwind(34)]
    fn gen_reg_iarith(s) { gen_reg(s, Kind::IArith) }
    #[kani::stub(uuid::Uuid::new_v4, crate::stubs::uuid_counter)]
    #[kani::unwind(34)]
    fn gen_reg_load(s) { gen_reg(s, Kind::Load) }
    #[kani::stub(uuid::Uuid::new_v4, crate::stubs::uuid_counter)]
    #[kani::unwind(34)]
    fn gen_reg_la(s) { gen_reg(s, Kind::La) }
    #[kani::stub(uuid::Uuid::new_v4, crate::stubs::uuid_counter)]
    #[kani::unwind(34)]
    fn gen_reg_jal(s) { gen_reg(s, Kind::Jal) }
    #[kani::stub(uuid::Uuid::new_v4, crate::stubs::uuid_counter)]
    #[kani::unwind(34)]
    fn gen_reg_jalr(s) { gen_reg(s, Kind::Jalr) }
    #[kani::stub(uuid::Uuid::new_v4, crate::stubs::uuid_counter)]
    #[kani::unwind(34)]
    fn gen_reg_csr(s) { gen_reg(s, Kind::Csr) }
    #[kani::stub(uuid::Uuid::new_v4, crate::stubs::uuid_counter)]
    #[kani::unwind(34)]
    fn gen_reg_csri(s) { gen_reg(s, Kind::CsrI) }
    #[kani::stub(uuid::Uuid::new_v4, crate::stubs::uuid_counter)]
    #[kani::unwind(34)]
    fn gen_reg_store(s) { gen_reg(s, Kind::Store) }
    #[kani::stub(uuid::Uuid::new_v4, crate::stubs::uuid_counter)]
    #[kani::unwind(34)]
    fn gen_reg_branch(s) { gen_reg(s, Kind::Branch) }

    #[kani::stub(uuid::Uuid::new_v4, crate::stubs::uuid_counter)]
    #[kani::unwind(34)]
    fn gen_mem_store_sp(s) { gen_mem_store(s) }
    #[kani::stub(uuid::Uuid::new_v4, crate::stubs::uuid_counter)]
    #[kani::unwind(34)]
    fn gen_mem_csrrw(s) { gen_mem_csr(s, Kind::Csr) }
    #[kani::stub(uuid::Uuid::new_v4, crate::stubs::uuid_counter)]
    #[kani::unwind(34)]
    fn gen_mem_csrrwi(s) { gen_mem_csr(s, Kind::CsrI) }
    #[kani::stub(uuid::Uuid::new_v4, crate::stubs::uuid_counter)]
    #[kani::unwind(34)]
    fn gen_mem_none_arith(s) { gen_mem_none(s, Kind::Arith) }
    #[kani::stub(uuid::Uuid::new_v4, crate::stubs::uuid_counter)]
    #[kani::unwind(34)]
    fn gen_mem_none_load(s) { gen_mem_none(s, Kind::Load) }
    #[kani::stub(uuid::Uuid::new_v4, crate::stubs::uuid_counter)]
    #[kani::unwind(34)]
    fn gen_mem_none_jal(s) { gen_mem_none(s, Kind::Jal) }

    #[kani::unwind(34)]
    fn gen_seeding(s) { seeding(s) }
    #[kani::unwind(8)]
    fn gen_meet(s) { meet(s) }
    #[kani::unwind(34)]
    fn gen_kill_step(s) { kill_step(s) }
}
