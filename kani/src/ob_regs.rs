//! C14 (and the register-alias half of C13; register tables used by C04/C05).
//!
//! C14.a  the register-class tables are the ABI's, `to_num`/`from_num` are
//!        inverse, and `Register::from_str` accepts exactly the 65 register
//!        spellings (all ASCII strings of length 1..=4 are explored).
//! C14.b  `RegisterSet` is the Boolean algebra on 32 bits.
//! C14.c  every per-instruction function is equivariant under a SYMBOLIC
//!        permutation of the temporaries (or of the saved registers):
//!        f(pi . node) == pi . f(node), node fields symbolic.

use crate::mk::{self, Fields, Kind};
use crate::src::Src;
use riscv_analysis::analysis::{AvailableValue, HasGenKillInfo, HasGenValueInfo};
use riscv_analysis::cfg::{environment_in_outs, RegisterSet};
use riscv_analysis::parser::{HasRegisterSets, InstructionProperties, Register};
use std::str::FromStr;

// ABI classes as bit masks over x0..x31 (RISC-V psABI, table "Integer register convention")
pub const TEMP: u32 = (0b111 << 5) | (0b1111 << 28); // t0-t2 = x5-x7, t3-t6 = x28-x31
pub const SAVED: u32 = (0b11 << 8) | (0x3ff << 18); // s0-s1 = x8-x9, s2-s11 = x18-x27
pub const ARG: u32 = 0xff << 10; // a0-a7 = x10-x17
pub const RA: u32 = 1 << 1;
pub const SP: u32 = 1 << 2;

fn bit(mask: u32, r: u8) -> bool {
    (mask >> (r & 31)) & 1 == 1
}

fn tables<S: Src>(s: &mut S) {
    let r = s.reg();
    let reg = mk::reg(r);
    assert!(reg.to_num() == r, "[C14] from_num/to_num are not inverse");
    assert!(Register::temporary_set().contains(&reg) == bit(TEMP, r), "[C14] temporary_set is not (t0-t6)");
    assert!(Register::saved_set().contains(&reg) == bit(SAVED, r), "[C14] saved_set is not (s0-s11)");
    assert!(Register::argument_set().contains(&reg) == bit(ARG, r), "[C14] argument_set is not (a0-a7)");
    assert!(Register::return_set().contains(&reg) == bit(ARG, r), "[C14] return_set is not (a0-a7)");
    assert!(Register::caller_saved_set().contains(&reg) == bit(TEMP | ARG, r), "[C14] caller_saved_set is not temporaries + arguments");
    assert!(Register::callee_saved_set().contains(&reg) == bit(SAVED | RA | SP, r), "[C14] callee_saved_set is not saved + sp + ra");
    assert!(Register::all_writable_set().contains(&reg) == (r != 0), "[C14] all_writable_set is not everything but x0");
    assert!(Register::sp_ra_set().contains(&reg) == bit(RA | SP, r), "[C14] sp_ra_set is not (sp, ra)");
    assert!(Register::return_addr_set().contains(&reg) == bit(RA, r), "[C14] return_addr_set is not (ra)");
    assert!(Register::const_zero_set().contains(&reg) == (r == 0), "[C14] const_zero_set is not (x0)");
    assert!(Register::program_args_set().contains(&reg) == (r == 10 || r == 11), "[C14] program_args_set is not (a0, a1)");
    assert!(Register::ecall_always_argument_set().contains(&reg) == (r == 17), "[C14] ecall_always_argument_set is not (a7)");
    assert!(Register::all().contains(&reg), "[C14] Register::all misses a register");
    assert!((Register::ecall_type().to_num() == 17), "[C14] ecall number register is not a7");
    crate::witness!(true, "W:end");
}

fn num_roundtrip<S: Src>(s: &mut S) {
    let n = s.u8();
    match Register::from_num(n) {
        Ok(r) => {
            assert!(n < 32, "[C14] from_num accepts a number above 31");
            assert!(r.to_num() == n, "[C14] to_num(from_num(n)) != n");
        }
        Err(_) => assert!(n >= 32, "[C14] from_num rejects a valid register number"),
    }
    crate::witness!(true, "W:end");
}

/// Independent reference: which register (if any) does an ASCII spelling name?
fn reference_register(b: &[u8]) -> Option<u8> {
    let d = |c: u8| -> Option<u8> {
        if c.is_ascii_digit() {
            Some(c - b'0')
        } else {
            None
        }
    };
    match b.len() {
        2 => {
            let (c0, c1) = (b[0], b[1]);
            match (c0, c1) {
                (b'r', b'a') => Some(1),
                (b's', b'p') => Some(2),
                (b'g', b'p') => Some(3),
                (b't', b'p') => Some(4),
                (b'f', b'p') => Some(8),
                _ => {
                    let n = d(c1)?;
                    match c0 {
                        b'x' => Some(n),
                        b't' => {
                            if n <= 2 {
                                Some(5 + n)
                            } else if n <= 6 {
                                Some(28 + (n - 3))
                            } else {
                                None
                            }
                        }
                        b's' => {
                            if n <= 1 {
                                Some(8 + n)
                            } else {
                                Some(18 + (n - 2))
                            }
                        }
                        b'a' => {
                            if n <= 7 {
                                Some(10 + n)
                            } else {
                                None
                            }
                        }
                        _ => None,
                    }
                }
            }
        }
        3 => {
            let (c0, n1, n2) = (b[0], d(b[1])?, d(b[2])?);
            let n = n1 * 10 + n2;
            match c0 {
                b'x' => {
                    if n1 >= 1 && n <= 31 {
                        Some(n)
                    } else {
                        None
                    }
                }
                b's' => {
                    if n == 10 || n == 11 {
                        Some(16 + n)
                    } else {
                        None
                    }
                }
                _ => None,
            }
        }
        4 => {
            if b[0] == b'z' && b[1] == b'e' && b[2] == b'r' && b[3] == b'o' {
                Some(0)
            } else {
                None
            }
        }
        _ => None,
    }
}

fn from_str_body<S: Src, const N: usize>(s: &mut S) {
    let mut buf = [0u8; N];
    let mut i = 0;
    while i < N {
        let b = s.u8();
        s.assume(b < 128);
        buf[i] = b;
        i += 1;
    }
    // SAFETY: all bytes are ASCII
    let text = unsafe { core::str::from_utf8_unchecked(&buf) };
    let got = Register::from_str(text).ok().map(Register::to_num);
    let want = reference_register(&buf);
    crate::seen!(want.is_some(), "I:a register spelling");
    assert!(got == want, "[C14,C13] Register::from_str disagrees with the ABI spelling table");
    crate::witness!(true, "W:end");
}

fn set_from_mask(mask: u32) -> RegisterSet {
    let mut set = RegisterSet::new();
    let mut i: u8 = 0;
    while i < 32 {
        if bit(mask, i) {
            set.set_register(&mk::reg(i));
        }
        i += 1;
    }
    set
}

fn set_algebra<S: Src>(s: &mut S) {
    let a = s.u32();
    let b = s.u32();
    let r = s.reg();
    let q = s.reg();
    let (reg, qreg) = (mk::reg(r), mk::reg(q));
    let sa = set_from_mask(a);
    let sb = set_from_mask(b);
    assert!(sa.contains(&reg) == bit(a, r), "[C14,C01] contains/set_register disagree with the bit mask");
    assert!(sa.is_empty() == (a == 0), "[C14] is_empty");
    assert!((sa | sb).contains(&reg) == bit(a | b, r), "[C14] union");
    assert!((sa & sb).contains(&reg) == bit(a & b, r), "[C14] intersection");
    assert!((sa - sb).contains(&reg) == bit(a & !b, r), "[C14,C01] difference");
    assert!((sa | qreg).contains(&reg) == (bit(a, r) || r == q), "[C14] union with a register");
    assert!((sa & qreg).contains(&reg) == (bit(a, r) && r == q), "[C14] intersection with a register");
    assert!((sa - qreg).contains(&reg) == (bit(a, r) && r != q), "[C14] difference with a register");
    let mut m = sa;
    m |= sb;
    assert!(m == (sa | sb), "[C14] |= differs from |");
    let mut m = sa;
    m &= sb;
    assert!(m == (sa & sb), "[C14] &= differs from &");
    let mut m = sa;
    m -= sb;
    assert!(m == (sa - sb), "[C14,C01] -= differs from -");
    let mut m = sa;
    m |= qreg;
    assert!(m == (sa | qreg), "[C14] |= register");
    let mut m = sa;
    m &= qreg;
    assert!(m == (sa & qreg), "[C14] &= register");
    let mut m = sa;
    m -= qreg;
    assert!(m == (sa - qreg), "[C14] -= register");
    let mut m = sa;
    m.unset_register(&qreg);
    assert!(m.contains(&reg) == (bit(a, r) && r != q), "[C14] unset_register");
    assert!(RegisterSet::from_register(qreg).contains(&reg) == (r == q), "[C14] from_register");
    assert!((sa == sb) == (a == b), "[C14] set equality is not mask equality");
    crate::witness!(true, "W:end");
}

/// The iterator yields the members in ascending order: the first three
/// `next()` calls return the three smallest members (or None when exhausted).
/// (The full 32-step walk nests a data-dependent inner loop and ran out of
/// memory under CBMC; three steps from the start is the stated bound.)
fn set_iter<S: Src>(s: &mut S) {
    let a = s.u32();
    let sa = set_from_mask(a);
    let mut it = sa.iter();
    let mut rest = a;
    let mut k = 0;
    while k < 3 {
        let got = it.next().map(Register::to_num);
        let want = if rest == 0 { None } else { Some(rest.trailing_zeros() as u8) };
        assert!(got == want, "[C14,C01] RegisterSet iteration does not yield the members in ascending order");
        if let Some(n) = want {
            rest &= !(1u32 << n);
        }
        k += 1;
    }
    crate::witness!(true, "W:end");
}

/// collect(iter) round-trips for sets of the low 8 registers and of the high 8.
fn set_iter_collect<S: Src>(s: &mut S) {
    let a = u32::from(s.u8());
    let hi = s.bool();
    let mask = if hi { a << 24 } else { a };
    let sa = set_from_mask(mask);
    let collected: RegisterSet = sa.iter().collect();
    assert!(collected == sa, "[C14] collect(iter(s)) != s");
    crate::witness!(true, "W:end");
}

fn ecall_table<S: Src>(s: &mut S) {
    let n = s.i32();
    let q = s.reg();
    if let Some((ins, outs)) = environment_in_outs(n) {
        crate::seen!(true, "I:known ecall number");
        let qr = mk::reg(q);
        if !bit(ARG, q) {
            assert!(!ins.contains(&qr) && !outs.contains(&qr), "[C14] ecall table mentions a non-argument register");
        }
        // a7 carries the call number and is never a result
        assert!(!outs.contains(&Register::X17), "[C14] ecall table returns a value in a7");
    }
    crate::witness!(true, "W:end");
}

// ---------------------------------------------------------------------------
// equivariance

/// A symbolic TRANSPOSITION (a b) of two registers of one class.  Transpositions
/// generate the symmetric group, and equivariance is closed under composition
/// (f(st.n) = s.f(t.n) = st.f(n)), so equivariance under every transposition is
/// equivariance under every permutation of the class.
#[derive(Clone, Copy)]
pub struct Perm {
    a: u8,
    b: u8,
}

pub fn draw_perm<S: Src>(s: &mut S, class: u32) -> Perm {
    let a = s.reg();
    let b = s.reg();
    s.assume(bit(class, a) && bit(class, b));
    Perm { a, b }
}

impl Perm {
    pub fn at(&self, r: u8) -> u8 {
        if r == self.a {
            self.b
        } else if r == self.b {
            self.a
        } else {
            r
        }
    }
    pub fn reg(&self, r: Register) -> Register {
        mk::reg(self.at(r.to_num()))
    }
    pub fn fields(&self, f: &Fields) -> Fields {
        Fields { rd: self.at(f.rd), rs1: self.at(f.rs1), rs2: self.at(f.rs2), ..*f }
    }
    pub fn value(&self, v: &AvailableValue) -> AvailableValue {
        match v {
            AvailableValue::RegisterWithScalar(r, i) => AvailableValue::RegisterWithScalar(self.reg(*r), *i),
            AvailableValue::OriginalRegisterWithScalar(r, i) => {
                AvailableValue::OriginalRegisterWithScalar(self.reg(*r), *i)
            }
            AvailableValue::MemoryAtRegister(r, i) => AvailableValue::MemoryAtRegister(self.reg(*r), *i),
            AvailableValue::MemoryAtOriginalRegister(r, i) => {
                AvailableValue::MemoryAtOriginalRegister(self.reg(*r), *i)
            }
            other => other.clone(),
        }
    }
}

/// `group` selects which functions are compared (one harness per group keeps
/// the formula small: every `With<Register>` clone drags a `Token` along):
/// 0 kill_reg, 5 gen_reg, 1 writes_to/reads_from, 2 gen_reg_value/gen_memory_value,
/// 3 predicates, 4 memory operands.
fn equivariance<S: Src>(s: &mut S, kind: Kind, group: u8) {
    let f = mk::draw_fields(s, kind);
    let a_ = s.reg();
    let b_ = s.reg();
    // both in the temporary class or both in the saved class
    s.assume((bit(TEMP, a_) && bit(TEMP, b_)) || (bit(SAVED, a_) && bit(SAVED, b_)));
    let pi = Perm { a: a_, b: b_ };
    let q = s.reg();
    let pf = pi.fields(&f);
    crate::seen!(pf.rd != f.rd, "I:destination register actually renamed");
    let a = mk::build(&f);
    let b = mk::build(&pf);
    let (qa, qb) = (mk::reg(q), mk::reg(pi.at(q)));

    if group == 0 {
        assert!(a.kill_reg().contains(&qa) == b.kill_reg().contains(&qb), "[C14] kill_reg is not equivariant");
    }
    if group == 5 {
        assert!(a.gen_reg().contains(&qa) == b.gen_reg().contains(&qb), "[C14] gen_reg is not equivariant");
    }
    if group == 1 {
        assert!(
            a.writes_to().map(|x| pi.at(x.get().to_num())) == b.writes_to().map(|x| x.get().to_num()),
            "[C14] writes_to is not equivariant"
        );
        let (ra, rb) = (a.reads_from(), b.reads_from());
        assert!(ra.len() == rb.len(), "[C14] reads_from changes size under renaming");
        let mut ma: u32 = 0;
        for t in &ra {
            ma |= 1 << pi.at(t.get().to_num());
        }
        let mut mb: u32 = 0;
        for t in &rb {
            mb |= 1 << t.get().to_num();
        }
        assert!(ma == mb, "[C14] reads_from is not equivariant");
        core::mem::forget((ra, rb));
    }
    if group == 2 {
        let (ga, gb) = (a.gen_reg_value(), b.gen_reg_value());
        match (&ga, &gb) {
            (None, None) => {}
            (Some((r1, v1)), Some((r2, v2))) => {
                assert!(pi.reg(*r1) == *r2, "[C14] gen_reg_value register is not equivariant");
                assert!(pi.value(v1) == *v2, "[C14] gen_reg_value value is not equivariant");
            }
            _ => assert!(false, "[C14] gen_reg_value appears/disappears under renaming"),
        }
        let (ma, mb) = (a.gen_memory_value(), b.gen_memory_value());
        match (&ma, &mb) {
            (None, None) => {}
            (Some((l1, v1)), Some((l2, v2))) => {
                assert!(l1 == l2, "[C14] gen_memory_value location changes under renaming");
                assert!(pi.value(v1) == *v2, "[C14] gen_memory_value value is not equivariant");
            }
            _ => assert!(false, "[C14] gen_memory_value appears/disappears under renaming"),
        }
        core::mem::forget((ga, gb, ma, mb));
    }
    if group == 3 {
        assert!(a.is_return() == b.is_return(), "[C14] is_return changes under renaming");
        assert!(a.is_ureturn() == b.is_ureturn(), "[C14] is_ureturn changes under renaming");
        assert!(a.is_ecall() == b.is_ecall(), "[C14] is_ecall changes under renaming");
        assert!(a.can_skip_save_checks() == b.can_skip_save_checks(), "[C14] can_skip_save_checks changes under renaming");
        assert!(a.is_unconditional_jump() == b.is_unconditional_jump(), "[C14] is_unconditional_jump changes under renaming");
        let (ca, cb) = (a.calls_to(), b.calls_to());
        assert!(ca.is_some() == cb.is_some(), "[C14] calls_to changes under renaming");
        let (ja, jb) = (a.jumps_to(), b.jumps_to());
        assert!(ja.is_some() == jb.is_some(), "[C14] jumps_to changes under renaming");
        core::mem::forget((ca, cb, ja, jb));
    }
    if group == 4 {
        assert!(
            a.stores_to_memory().map(|(x, (y, i))| (pi.reg(x), pi.reg(y), i.value()))
                == b.stores_to_memory().map(|(x, (y, i))| (x, y, i.value())),
            "[C14] stores_to_memory is not equivariant"
        );
        assert!(
            a.reads_from_memory().map(|((x, i), y)| (pi.reg(x), i.value(), pi.reg(y)))
                == b.reads_from_memory().map(|((x, i), y)| (x, i.value(), y)),
            "[C14] reads_from_memory is not equivariant"
        );
        assert!(
            a.uses_memory_location().map(|(x, i)| (pi.reg(x), i.value()))
                == b.uses_memory_location().map(|(x, i)| (x, i.value())),
            "[C14] uses_memory_location is not equivariant"
        );
    }
    crate::witness!(true, "W:end");
    core::mem::forget((a, b));
}

macro_rules! equiv_harnesses {
    ($($name:ident, $kind:expr, $group:expr;)*) => {
        crate::obligations! {
            fn regs_tables(s) { tables(s) }
            fn regs_num_roundtrip(s) { num_roundtrip(s) }
            #[kani::unwind(40)]
            fn regs_from_str1(s) { from_str_body::<S, 1>(s) }
            #[kani::unwind(40)]
            fn regs_from_str2(s) { from_str_body::<S, 2>(s) }
            #[kani::unwind(40)]
            fn regs_from_str3(s) { from_str_body::<S, 3>(s) }
            #[kani::unwind(40)]
            fn regs_from_str4(s) { from_str_body::<S, 4>(s) }
            #[kani::unwind(40)]
            fn regs_from_str5(s) { from_str_body::<S, 5>(s) }
            #[kani::unwind(34)]
            fn regs_set_algebra(s) { set_algebra(s) }
            #[kani::unwind(34)]
            fn regs_set_iter(s) { set_iter(s) }
            #[kani::unwind(8)]
            fn regs_ecall_table(s) { ecall_table(s) }
            $(
                #[kani::stub(uuid::Uuid::new_v4, crate::stubs::uuid_counter)]
                #[kani::unwind(9)]
                fn $name(s) { equivariance(s, $kind, $group) }
            )*
        }
    };
}

equiv_harnesses! {
    equiv_arith_kill, Kind::Arith, 0;
    equiv_arith_gen, Kind::Arith, 5;
    equiv_arith_rw, Kind::Arith, 1;
    equiv_arith_values, Kind::Arith, 2;
    equiv_arith_preds, Kind::Arith, 3;
    equiv_arith_memops, Kind::Arith, 4;
    equiv_iarith_kill, Kind::IArith, 0;
    equiv_iarith_gen, Kind::IArith, 5;
    equiv_iarith_rw, Kind::IArith, 1;
    equiv_iarith_values, Kind::IArith, 2;
    equiv_iarith_preds, Kind::IArith, 3;
    equiv_iarith_memops, Kind::IArith, 4;
    equiv_jal_kill, Kind::Jal, 0;
    equiv_jal_gen, Kind::Jal, 5;
    equiv_jal_rw, Kind::Jal, 1;
    equiv_jal_values, Kind::Jal, 2;
    equiv_jal_preds, Kind::Jal, 3;
    equiv_jal_memops, Kind::Jal, 4;
    equiv_jalr_kill, Kind::Jalr, 0;
    equiv_jalr_gen, Kind::Jalr, 5;
    equiv_jalr_rw, Kind::Jalr, 1;
    equiv_jalr_values, Kind::Jalr, 2;
    equiv_jalr_preds, Kind::Jalr, 3;
    equiv_jalr_memops, Kind::Jalr, 4;
    equiv_basic_kill, Kind::Basic, 0;
    equiv_basic_gen, Kind::Basic, 5;
    equiv_basic_rw, Kind::Basic, 1;
    equiv_basic_values, Kind::Basic, 2;
    equiv_basic_preds, Kind::Basic, 3;
    equiv_basic_memops, Kind::Basic, 4;
    equiv_branch_kill, Kind::Branch, 0;
    equiv_branch_gen, Kind::Branch, 5;
    equiv_branch_rw, Kind::Branch, 1;
    equiv_branch_values, Kind::Branch, 2;
    equiv_branch_preds, Kind::Branch, 3;
    equiv_branch_memops, Kind::Branch, 4;
    equiv_store_kill, Kind::Store, 0;
    equiv_store_gen, Kind::Store, 5;
    equiv_store_rw, Kind::Store, 1;
    equiv_store_values, Kind::Store, 2;
    equiv_store_preds, Kind::Store, 3;
    equiv_store_memops, Kind::Store, 4;
    equiv_load_kill, Kind::Load, 0;
    equiv_load_gen, Kind::Load, 5;
    equiv_load_rw, Kind::Load, 1;
    equiv_load_values, Kind::Load, 2;
    equiv_load_preds, Kind::Load, 3;
    equiv_load_memops, Kind::Load, 4;
    equiv_la_kill, Kind::La, 0;
    equiv_la_gen, Kind::La, 5;
    equiv_la_rw, Kind::La, 1;
    equiv_la_values, Kind::La, 2;
    equiv_la_preds, Kind::La, 3;
    equiv_la_memops, Kind::La, 4;
    equiv_csr_kill, Kind::Csr, 0;
    equiv_csr_gen, Kind::Csr, 5;
    equiv_csr_rw, Kind::Csr, 1;
    equiv_csr_values, Kind::Csr, 2;
    equiv_csr_preds, Kind::Csr, 3;
    equiv_csr_memops, Kind::Csr, 4;
    equiv_csri_kill, Kind::CsrI, 0;
    equiv_csri_gen, Kind::CsrI, 5;
    equiv_csri_rw, Kind::CsrI, 1;
    equiv_csri_values, Kind::CsrI, 2;
    equiv_csri_preds, Kind::CsrI, 3;
    equiv_csri_memops, Kind::CsrI, 4;
    equiv_funcentry_kill, Kind::FuncEntry, 0;
    equiv_funcentry_gen, Kind::FuncEntry, 5;
    equiv_funcentry_rw, Kind::FuncEntry, 1;
    equiv_funcentry_values, Kind::FuncEntry, 2;
    equiv_funcentry_preds, Kind::FuncEntry, 3;
    equiv_funcentry_memops, Kind::FuncEntry, 4;
}
