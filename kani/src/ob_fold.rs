//! C08.a / C01.a / C06: constant folding.
//!
//! For each mnemonic that `Inst::math_op` folds, and for ALL operand pairs
//! (x, y) in i32 x i32, the real `MathOp::operate` must return the RV32IM
//! result of that mnemonic (ISA manual semantics in `rvref::alu`), without
//! panicking.  `scalar_op` must agree with `math_op` where it is defined.

use crate::rvref::{alu, Alu};
use crate::src::Src;
use riscv_analysis::parser::Inst;

fn fold_body<S: Src>(s: &mut S, inst: Inst, op: Alu) {
    let x = s.i32();
    let y = s.i32();
    let m = inst.math_op();
    assert!(m.is_some(), "fold: mnemonic has no folding operator");
    if let Some(m) = m {
        let got = m.operate(x, y);
        let want = alu(op, x as u32, y as u32) as i32;
        crate::witness!(true, "W:operate returned");
        assert!(got == want, "fold: result differs from RV32IM semantics");
    }
}

fn scalar_body<S: Src>(s: &mut S, inst: Inst, op: Alu) {
    let x = s.i32();
    let y = s.i32();
    if let Some(m) = inst.scalar_op() {
        let got = m.operate(x, y);
        let want = alu(op, x as u32, y as u32) as i32;
        crate::witness!(true, "W:operate returned");
        assert!(got == want, "scalar_op: result differs from RV32IM semantics");
    }
}

crate::obligations! {
    fn fold_add(s) { fold_body(s, Inst::Add, Alu::Add) }
    fn fold_addi(s) { fold_body(s, Inst::Addi, Alu::Add) }
    fn fold_sub(s) { fold_body(s, Inst::Sub, Alu::Sub) }
    fn fold_and(s) { fold_body(s, Inst::And, Alu::And) }
    fn fold_andi(s) { fold_body(s, Inst::Andi, Alu::And) }
    fn fold_or(s) { fold_body(s, Inst::Or, Alu::Or) }
    fn fold_ori(s) { fold_body(s, Inst::Ori, Alu::Or) }
    fn fold_xor(s) { fold_body(s, Inst::Xor, Alu::Xor) }
    fn fold_xori(s) { fold_body(s, Inst::Xori, Alu::Xor) }
    fn fold_sll(s) { fold_body(s, Inst::Sll, Alu::Sll) }
    fn fold_slli(s) { fold_body(s, Inst::Slli, Alu::Sll) }
    fn fold_srl(s) { fold_body(s, Inst::Srl, Alu::Srl) }
    fn fold_srli(s) { fold_body(s, Inst::Srli, Alu::Srl) }
    fn fold_sra(s) { fold_body(s, Inst::Sra, Alu::Sra) }
    fn fold_srai(s) { fold_body(s, Inst::Srai, Alu::Sra) }
    fn fold_slt(s) { fold_body(s, Inst::Slt, Alu::Slt) }
    fn fold_slti(s) { fold_body(s, Inst::Slti, Alu::Slt) }
    fn fold_sltu(s) { fold_body(s, Inst::Sltu, Alu::Sltu) }
    fn fold_sltiu(s) { fold_body(s, Inst::Sltiu, Alu::Sltu) }
    fn fold_mul(s) { fold_body(s, Inst::Mul, Alu::Mul) }
    fn fold_mulh(s) { fold_body(s, Inst::Mulh, Alu::Mulh) }
    fn fold_mulhsu(s) { fold_body(s, Inst::Mulhsu, Alu::Mulhsu) }
    fn fold_mulhu(s) { fold_body(s, Inst::Mulhu, Alu::Mulhu) }
    fn fold_div(s) { fold_body(s, Inst::Div, Alu::Div) }
    fn fold_divu(s) { fold_body(s, Inst::Divu, Alu::Divu) }
    fn fold_rem(s) { fold_body(s, Inst::Rem, Alu::Rem) }
    fn fold_remu(s) { fold_body(s, Inst::Remu, Alu::Remu) }
    fn scalar_add(s) { scalar_body(s, Inst::Add, Alu::Add) }
    fn scalar_addi(s) { scalar_body(s, Inst::Addi, Alu::Add) }
    fn scalar_sub(s) { scalar_body(s, Inst::Sub, Alu::Sub) }
}
