//! Solver-checked obligations for riscv-analysis (see /verif/DESIGN.md).
//!
//! Every obligation is a function generic over a value source (`src::Src`);
//! `obligations!` turns each into (a) a `#[kani::proof]` harness over
//! `kani::any()` inputs and (b) an entry of a replay table used by
//! `src/bin/replay.rs` to re-run a counterexample natively.

pub mod rvref;
pub mod src;
pub mod stubs;

#[macro_export]
macro_rules! obligations {
    ( $( $(#[$attr:meta])* fn $name:ident ( $s:ident ) $body:block )* ) => {
        $( pub fn $name<S: $crate::src::Src>($s: &mut S) $body )*

        #[cfg(kani)]
        mod proofs {
            $(
                #[kani::proof]
                $(#[$attr])*
                fn $name() {
                    super::$name(&mut $crate::src::KaniSrc);
                }
            )*
        }

        pub const TABLE: &[(&str, fn(&mut $crate::src::ReplaySrc))] = &[
            $( (stringify!($name), $name::<$crate::src::ReplaySrc>) ),*
        ];
    };
}

pub mod ob_fold;

/// All replayable obligations, by harness name.
pub fn replay_tables() -> Vec<&'static [(&'static str, fn(&mut src::ReplaySrc))]> {
    vec![ob_fold::TABLE]
}
