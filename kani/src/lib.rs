//! Solver-checked obligations for riscv-analysis (see /verif/DESIGN.md).
//!
//! Every obligation is a function generic over a value source (`src::Src`);
//! `obligations!` turns each into (a) a `#[kani::proof]` harness over
//! `kani::any()` inputs and (b) an entry of a replay table used by
//! `src/bin/replay.rs` to re-run a counterexample natively.

pub mod rvref;
pub mod src;
pub mod stubs;

/// (The message literal must start with "W:" for `witness!`, "I:" for `seen!`:
/// kani::cover! only accepts a literal.)
/// Reachability witness at a specific site (one distinct cover property per
/// call site); the driver requires every witness of a harness to be SATISFIED.
#[macro_export]
macro_rules! witness {
    ($cond:expr, $msg:literal) => {
        #[cfg(kani)]
        kani::cover!($cond, $msg);
    };
}

/// Informational cover: reported in the evidence, not required.
#[macro_export]
macro_rules! seen {
    ($cond:expr, $msg:literal) => {
        #[cfg(kani)]
        kani::cover!($cond, $msg);
    };
}

#[macro_export]
macro_rules! obligations {
    ( $( $(#[$attr:meta])* fn $name:ident ( $s:ident ) $body:block )* ) => {
        $( pub fn $name<S: $crate::src::Src>($s: &mut S) $body )*

        #[cfg(kani)]
        mod proofs {
            $(
                #[kani::proof]
                $(#[$attr])*
                fn $name() {
                    super::$name(&mut $crate::src::KaniSrc);
                }
            )*
        }

        pub const TABLE: &[(&str, fn(&mut $crate::src::ReplaySrc))] = &[
            $( (stringify!($name), $name::<$crate::src::ReplaySrc>) ),*
        ];
    };
}

pub mod mk;
pub mod ob_fold;
pub mod ob_gen;
pub mod ob_rules;
pub mod gen_rules;
pub mod ob_imm;
pub mod ob_lexpos;
pub mod ob_misc;
pub mod ob_props;
pub mod ob_regs;
pub mod ob_text;

/// All replayable obligations, by harness name.
pub fn replay_tables() -> Vec<&'static [(&'static str, fn(&mut src::ReplaySrc))]> {
    vec![ob_fold::TABLE, ob_imm::TABLE, ob_lexpos::TABLE, ob_props::TABLE, ob_regs::TABLE, ob_gen::TABLE, gen_rules::TABLE, ob_misc::TABLE]
}
