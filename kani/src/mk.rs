//! Construction of real `ParserNode`s from (possibly symbolic) integer fields,
//! without going through the lexer.  Tokens are `Token::default()` (empty
//! text): the functions under test never look at them.

use riscv_analysis::parser::{
    ArithType, BasicType, BranchType, CsrIType, CsrImm, CsrType, IArithType, Imm, JumpLinkRType,
    JumpLinkType, LabelString, LoadType, ParserNode, PseudoType, RawToken, Register, StoreType,
    Token, With,
};

pub fn w<T>(x: T) -> With<T> {
    With::new(x, Token::default())
}

/// Register with the given number (caller guarantees n < 32).
pub fn reg(n: u8) -> Register {
    match Register::from_num(n & 31) {
        Ok(r) => r,
        Err(_) => Register::X0,
    }
}

pub fn label(name: &str) -> With<LabelString> {
    w(LabelString::new(name))
}

pub const ARITH: [ArithType; 18] = [
    ArithType::Add,
    ArithType::Sub,
    ArithType::And,
    ArithType::Or,
    ArithType::Xor,
    ArithType::Sll,
    ArithType::Srl,
    ArithType::Sra,
    ArithType::Slt,
    ArithType::Sltu,
    ArithType::Mul,
    ArithType::Mulh,
    ArithType::Mulhsu,
    ArithType::Mulhu,
    ArithType::Div,
    ArithType::Divu,
    ArithType::Rem,
    ArithType::Remu,
];

pub const IARITH: [IArithType; 11] = [
    IArithType::Addi,
    IArithType::Andi,
    IArithType::Ori,
    IArithType::Xori,
    IArithType::Slli,
    IArithType::Srli,
    IArithType::Srai,
    IArithType::Slti,
    IArithType::Sltiu,
    IArithType::Lui,
    IArithType::Auipc,
];

pub const BRANCH: [BranchType; 6] = [
    BranchType::Beq,
    BranchType::Bne,
    BranchType::Blt,
    BranchType::Bge,
    BranchType::Bltu,
    BranchType::Bgeu,
];

pub const LOAD: [LoadType; 5] = [
    LoadType::Lb,
    LoadType::Lbu,
    LoadType::Lh,
    LoadType::Lhu,
    LoadType::Lw,
];

pub const STORE: [StoreType; 3] = [StoreType::Sb, StoreType::Sh, StoreType::Sw];
pub const CSR: [CsrType; 3] = [CsrType::Csrrw, CsrType::Csrrs, CsrType::Csrrc];
pub const CSRI: [CsrIType; 3] = [CsrIType::Csrrwi, CsrIType::Csrrsi, CsrIType::Csrrci];
pub const BASIC: [BasicType; 3] = [BasicType::Ecall, BasicType::Ebreak, BasicType::Uret];

pub fn arith(t: ArithType, rd: u8, rs1: u8, rs2: u8) -> ParserNode {
    ParserNode::new_arith(w(t), w(reg(rd)), w(reg(rs1)), w(reg(rs2)), RawToken::default())
}
pub fn iarith(t: IArithType, rd: u8, rs1: u8, imm: i32) -> ParserNode {
    ParserNode::new_iarith(w(t), w(reg(rd)), w(reg(rs1)), w(Imm::new(imm)), RawToken::default())
}
pub fn jal(rd: u8, target: &str) -> ParserNode {
    ParserNode::new_jump_link(w(JumpLinkType::Jal), w(reg(rd)), label(target), RawToken::default())
}
pub fn jalr(rd: u8, rs1: u8, imm: i32) -> ParserNode {
    ParserNode::new_jump_link_r(w(JumpLinkRType::Jalr), w(reg(rd)), w(reg(rs1)), w(Imm::new(imm)), RawToken::default())
}
pub fn basic(t: BasicType) -> ParserNode {
    ParserNode::new_basic(w(t), RawToken::default())
}
pub fn branch(t: BranchType, rs1: u8, rs2: u8, target: &str) -> ParserNode {
    ParserNode::new_branch(w(t), w(reg(rs1)), w(reg(rs2)), label(target), RawToken::default())
}
pub fn store(t: StoreType, rs1: u8, rs2: u8, imm: i32) -> ParserNode {
    ParserNode::new_store(w(t), w(reg(rs1)), w(reg(rs2)), w(Imm::new(imm)), RawToken::default())
}
pub fn load(t: LoadType, rd: u8, rs1: u8, imm: i32) -> ParserNode {
    ParserNode::new_load(w(t), w(reg(rd)), w(reg(rs1)), w(Imm::new(imm)), RawToken::default())
}
pub fn la(rd: u8, target: &str) -> ParserNode {
    ParserNode::new_load_addr(w(PseudoType::La), w(reg(rd)), label(target), RawToken::default())
}
pub fn csr(t: CsrType, rd: u8, csr: u32, rs1: u8) -> ParserNode {
    ParserNode::new_csr(w(t), w(reg(rd)), w(CsrImm::new(csr)), w(reg(rs1)), RawToken::default())
}
pub fn csri(t: CsrIType, rd: u8, csr: u32, imm: i32) -> ParserNode {
    ParserNode::new_csri(w(t), w(reg(rd)), w(CsrImm::new(csr)), w(Imm::new(imm)), RawToken::default())
}
pub fn func_entry(handler: bool) -> ParserNode {
    ParserNode::new_func_entry(uuid::Uuid::nil(), RawToken::default(), handler)
}
pub fn program_entry() -> ParserNode {
    ParserNode::new_program_entry(uuid::Uuid::nil(), RawToken::default())
}

/// The eleven instruction kinds plus the two entry pseudo-nodes.
#[derive(Clone, Copy, PartialEq, Eq, Debug)]
pub enum Kind {
    Arith,
    IArith,
    Jal,
    Jalr,
    Basic,
    Branch,
    Store,
    Load,
    La,
    Csr,
    CsrI,
    FuncEntry,
    ProgramEntry,
}

/// Integer description of a node: everything a register renaming can touch.
#[derive(Clone, Copy)]
pub struct Fields {
    pub kind: Kind,
    /// index into the kind's opcode table
    pub op: u8,
    pub rd: u8,
    pub rs1: u8,
    pub rs2: u8,
    pub imm: i32,
    pub csr: u32,
    pub handler: bool,
}

pub fn build(f: &Fields) -> ParserNode {
    match f.kind {
        Kind::Arith => arith(ARITH[(f.op as usize) % ARITH.len()], f.rd, f.rs1, f.rs2),
        Kind::IArith => iarith(IARITH[(f.op as usize) % IARITH.len()], f.rd, f.rs1, f.imm),
        Kind::Jal => jal(f.rd, "target"),
        Kind::Jalr => jalr(f.rd, f.rs1, f.imm),
        Kind::Basic => basic(BASIC[(f.op as usize) % BASIC.len()]),
        Kind::Branch => branch(BRANCH[(f.op as usize) % BRANCH.len()], f.rs1, f.rs2, "target"),
        Kind::Store => store(STORE[(f.op as usize) % STORE.len()], f.rs1, f.rs2, f.imm),
        Kind::Load => load(LOAD[(f.op as usize) % LOAD.len()], f.rd, f.rs1, f.imm),
        Kind::La => la(f.rd, "target"),
        Kind::Csr => csr(CSR[(f.op as usize) % CSR.len()], f.rd, f.csr, f.rs1),
        Kind::CsrI => csri(CSRI[(f.op as usize) % CSRI.len()], f.rd, f.csr, f.imm),
        Kind::FuncEntry => func_entry(f.handler),
        Kind::ProgramEntry => program_entry(),
    }
}

pub fn n_ops(kind: Kind) -> u8 {
    (match kind {
        Kind::Arith => ARITH.len(),
        Kind::IArith => IARITH.len(),
        Kind::Basic => BASIC.len(),
        Kind::Branch => BRANCH.len(),
        Kind::Store => STORE.len(),
        Kind::Load => LOAD.len(),
        Kind::Csr => CSR.len(),
        Kind::CsrI => CSRI.len(),
        _ => 1,
    }) as u8
}

/// Draw all integer fields of a node of the given kind.
pub fn draw_fields<S: crate::src::Src>(s: &mut S, kind: Kind) -> Fields {
    let op = s.choice(n_ops(kind));
    let rd = s.reg();
    let rs1 = s.reg();
    let rs2 = s.reg();
    let imm = s.i32();
    let csr = s.u32();
    let handler = s.bool();
    Fields { kind, op, rd, rs1, rs2, imm, csr, handler }
}
