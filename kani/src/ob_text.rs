//! C08.b / C08.c: reading a parsed node back through its public fields into an
//! ISA-level instruction (`RInst`).  Used by the native `decode` binary of
//! engine E3 (Kani cannot execute `ParserNode::try_from` on text inside its
//! caps: the Strings the lexer builds by `push` lose constant propagation after
//! the first realloc and symex then explores every arm of the mnemonic match).

use crate::rvref::{Alu, Cond, CsrOp, RInst, Width};
use riscv_analysis::parser::{
    ArithType, BranchType, CsrIType, CsrType, IArithType, LoadType, ParserNode, StoreType,
};

pub const LA_ADDR: u32 = 0x1001_0040;

fn arith_alu(t: ArithType) -> Option<Alu> {
    Some(match t {
        ArithType::Add => Alu::Add,
        ArithType::Sub => Alu::Sub,
        ArithType::And => Alu::And,
        ArithType::Or => Alu::Or,
        ArithType::Xor => Alu::Xor,
        ArithType::Sll => Alu::Sll,
        ArithType::Srl => Alu::Srl,
        ArithType::Sra => Alu::Sra,
        ArithType::Slt => Alu::Slt,
        ArithType::Sltu => Alu::Sltu,
        ArithType::Mul => Alu::Mul,
        ArithType::Mulh => Alu::Mulh,
        ArithType::Mulhsu => Alu::Mulhsu,
        ArithType::Mulhu => Alu::Mulhu,
        ArithType::Div => Alu::Div,
        ArithType::Divu => Alu::Divu,
        ArithType::Rem => Alu::Rem,
        ArithType::Remu => Alu::Remu,
        _ => return None, // RV64 word forms
    })
}

fn iarith_alu(t: IArithType) -> Option<Alu> {
    Some(match t {
        IArithType::Addi => Alu::Add,
        IArithType::Andi => Alu::And,
        IArithType::Ori => Alu::Or,
        IArithType::Xori => Alu::Xor,
        IArithType::Slli => Alu::Sll,
        IArithType::Srli => Alu::Srl,
        IArithType::Srai => Alu::Sra,
        IArithType::Slti => Alu::Slt,
        IArithType::Sltiu => Alu::Sltu,
        _ => return None,
    })
}

/// What the analyzer's node says, read through its public fields.
pub fn node_meaning(n: &ParserNode, la_addr: u32) -> Option<RInst> {
    Some(match n {
        ParserNode::Arith(x) => RInst::Alu {
            op: arith_alu(*x.inst.get())?,
            rd: x.rd.get().to_num(),
            rs1: x.rs1.get().to_num(),
            rs2: x.rs2.get().to_num(),
        },
        ParserNode::IArith(x) => match x.inst.get() {
            IArithType::Lui => {
                if x.rs1.get().to_num() != 0 {
                    return None;
                }
                RInst::Const { rd: x.rd.get().to_num(), value: x.imm.get().value() as u32 }
            }
            t => RInst::AluImm {
                op: iarith_alu(*t)?,
                rd: x.rd.get().to_num(),
                rs1: x.rs1.get().to_num(),
                imm: x.imm.get().value(),
            },
        },
        ParserNode::JumpLink(x) => RInst::Jal { rd: x.rd.get().to_num() },
        ParserNode::JumpLinkR(x) => RInst::Jalr {
            rd: x.rd.get().to_num(),
            rs1: x.rs1.get().to_num(),
            imm: x.imm.get().value(),
        },
        ParserNode::Basic(_) => RInst::System,
        ParserNode::Branch(x) => RInst::Branch {
            cond: match x.inst.get() {
                BranchType::Beq => Cond::Eq,
                BranchType::Bne => Cond::Ne,
                BranchType::Blt => Cond::Lt,
                BranchType::Bge => Cond::Ge,
                BranchType::Bltu => Cond::Ltu,
                BranchType::Bgeu => Cond::Geu,
            },
            rs1: x.rs1.get().to_num(),
            rs2: x.rs2.get().to_num(),
        },
        ParserNode::Store(x) => RInst::Store {
            width: match x.inst.get() {
                StoreType::Sb => Width::B,
                StoreType::Sh => Width::H,
                StoreType::Sw => Width::W,
            },
            rs1: x.rs1.get().to_num(),
            rs2: x.rs2.get().to_num(),
            imm: x.imm.get().value(),
        },
        ParserNode::Load(x) => {
            let (width, signed) = match x.inst.get() {
                LoadType::Lb => (Width::B, true),
                LoadType::Lbu => (Width::B, false),
                LoadType::Lh => (Width::H, true),
                LoadType::Lhu => (Width::H, false),
                LoadType::Lw => (Width::W, true),
                LoadType::Lwu => return None,
            };
            RInst::Load { width, signed, rd: x.rd.get().to_num(), rs1: x.rs1.get().to_num(), imm: x.imm.get().value() }
        }
        ParserNode::LoadAddr(x) => RInst::Const { rd: x.rd.get().to_num(), value: la_addr },
        ParserNode::Csr(x) => RInst::Csr {
            op: match x.inst.get() {
                CsrType::Csrrw => CsrOp::Rw,
                CsrType::Csrrs => CsrOp::Rs,
                CsrType::Csrrc => CsrOp::Rc,
            },
            rd: x.rd.get().to_num(),
            csr: x.csr.get().value(),
            rs1: x.rs1.get().to_num(),
        },
        ParserNode::CsrI(x) => RInst::CsrImm {
            op: match x.inst.get() {
                CsrIType::Csrrwi => CsrOp::Rw,
                CsrIType::Csrrsi => CsrOp::Rs,
                CsrIType::Csrrci => CsrOp::Rc,
            },
            rd: x.rd.get().to_num(),
            csr: x.csr.get().value(),
            uimm: x.imm.get().value() as u32,
        },
        ParserNode::ProgramEntry(_) | ParserNode::FuncEntry(_) | ParserNode::Label(_) | ParserNode::Directive(_) => {
            return None
        }
    })
}

pub fn node_label(n: &ParserNode) -> Option<&str> {
    match n {
        ParserNode::JumpLink(x) => Some(x.name.get().as_str()),
        ParserNode::Branch(x) => Some(x.name.get().as_str()),
        ParserNode::LoadAddr(x) => Some(x.name.get().as_str()),
        _ => None,
    }
}

