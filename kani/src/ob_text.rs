//! C08.b / C08.c (and the pseudo-instruction clause of C13): decoding and
//! pseudo-expansion.
//!
//! Concrete assembly text is lexed and parsed by the REAL `Lexer` and
//! `ParserNode::try_from`; the resulting node(s) are read back through their
//! public fields into an ISA-level instruction, which must have the same
//! destination and the same effect as the manual's meaning of the text for
//! ALL register-file contents (symbolic): result value, branch decision,
//! jump target, effective address, stored value, CSR operand.

use crate::ob_props::draw_regs;
use crate::rvref::{self, Alu, Cond, CsrOp, RInst, Width};
use crate::src::Src;
use riscv_analysis::parser::{
    ArithType, BranchType, CsrIType, CsrType, IArithType, LexError, Lexer, LoadType, ParserNode,
    StoreType,
};

pub const LA_ADDR: u32 = 0x1001_0040;

fn arith_alu(t: ArithType) -> Option<Alu> {
    Some(match t {
        ArithType::Add => Alu::Add,
        ArithType::Sub => Alu::Sub,
        ArithType::And => Alu::And,
        ArithType::Or => Alu::Or,
        ArithType::Xor => Alu::Xor,
        ArithType::Sll => Alu::Sll,
        ArithType::Srl => Alu::Srl,
        ArithType::Sra => Alu::Sra,
        ArithType::Slt => Alu::Slt,
        ArithType::Sltu => Alu::Sltu,
        ArithType::Mul => Alu::Mul,
        ArithType::Mulh => Alu::Mulh,
        ArithType::Mulhsu => Alu::Mulhsu,
        ArithType::Mulhu => Alu::Mulhu,
        ArithType::Div => Alu::Div,
        ArithType::Divu => Alu::Divu,
        ArithType::Rem => Alu::Rem,
        ArithType::Remu => Alu::Remu,
        _ => return None, // RV64 word forms
    })
}

fn iarith_alu(t: IArithType) -> Option<Alu> {
    Some(match t {
        IArithType::Addi => Alu::Add,
        IArithType::Andi => Alu::And,
        IArithType::Ori => Alu::Or,
        IArithType::Xori => Alu::Xor,
        IArithType::Slli => Alu::Sll,
        IArithType::Srli => Alu::Srl,
        IArithType::Srai => Alu::Sra,
        IArithType::Slti => Alu::Slt,
        IArithType::Sltiu => Alu::Sltu,
        _ => return None,
    })
}

/// What the analyzer's node says, read through its public fields.
pub fn node_meaning(n: &ParserNode, la_addr: u32) -> Option<RInst> {
    Some(match n {
        ParserNode::Arith(x) => RInst::Alu {
            op: arith_alu(*x.inst.get())?,
            rd: x.rd.get().to_num(),
            rs1: x.rs1.get().to_num(),
            rs2: x.rs2.get().to_num(),
        },
        ParserNode::IArith(x) => match x.inst.get() {
            IArithType::Lui => {
                if x.rs1.get().to_num() != 0 {
                    return None;
                }
                RInst::Const { rd: x.rd.get().to_num(), value: x.imm.get().value() as u32 }
            }
            t => RInst::AluImm {
                op: iarith_alu(*t)?,
                rd: x.rd.get().to_num(),
                rs1: x.rs1.get().to_num(),
                imm: x.imm.get().value(),
            },
        },
        ParserNode::JumpLink(x) => RInst::Jal { rd: x.rd.get().to_num() },
        ParserNode::JumpLinkR(x) => RInst::Jalr {
            rd: x.rd.get().to_num(),
            rs1: x.rs1.get().to_num(),
            imm: x.imm.get().value(),
        },
        ParserNode::Basic(_) => RInst::System,
        ParserNode::Branch(x) => RInst::Branch {
            cond: match x.inst.get() {
                BranchType::Beq => Cond::Eq,
                BranchType::Bne => Cond::Ne,
                BranchType::Blt => Cond::Lt,
                BranchType::Bge => Cond::Ge,
                BranchType::Bltu => Cond::Ltu,
                BranchType::Bgeu => Cond::Geu,
            },
            rs1: x.rs1.get().to_num(),
            rs2: x.rs2.get().to_num(),
        },
        ParserNode::Store(x) => RInst::Store {
            width: match x.inst.get() {
                StoreType::Sb => Width::B,
                StoreType::Sh => Width::H,
                StoreType::Sw => Width::W,
            },
            rs1: x.rs1.get().to_num(),
            rs2: x.rs2.get().to_num(),
            imm: x.imm.get().value(),
        },
        ParserNode::Load(x) => {
            let (width, signed) = match x.inst.get() {
                LoadType::Lb => (Width::B, true),
                LoadType::Lbu => (Width::B, false),
                LoadType::Lh => (Width::H, true),
                LoadType::Lhu => (Width::H, false),
                LoadType::Lw => (Width::W, true),
                LoadType::Lwu => return None,
            };
            RInst::Load { width, signed, rd: x.rd.get().to_num(), rs1: x.rs1.get().to_num(), imm: x.imm.get().value() }
        }
        ParserNode::LoadAddr(x) => RInst::Const { rd: x.rd.get().to_num(), value: la_addr },
        ParserNode::Csr(x) => RInst::Csr {
            op: match x.inst.get() {
                CsrType::Csrrw => CsrOp::Rw,
                CsrType::Csrrs => CsrOp::Rs,
                CsrType::Csrrc => CsrOp::Rc,
            },
            rd: x.rd.get().to_num(),
            csr: x.csr.get().value(),
            rs1: x.rs1.get().to_num(),
        },
        ParserNode::CsrI(x) => RInst::CsrImm {
            op: match x.inst.get() {
                CsrIType::Csrrwi => CsrOp::Rw,
                CsrIType::Csrrsi => CsrOp::Rs,
                CsrIType::Csrrci => CsrOp::Rc,
            },
            rd: x.rd.get().to_num(),
            csr: x.csr.get().value(),
            uimm: x.imm.get().value() as u32,
        },
        ParserNode::ProgramEntry(_) | ParserNode::FuncEntry(_) | ParserNode::Label(_) | ParserNode::Directive(_) => {
            return None
        }
    })
}

fn node_label(n: &ParserNode) -> Option<&str> {
    match n {
        ParserNode::JumpLink(x) => Some(x.name.get().as_str()),
        ParserNode::Branch(x) => Some(x.name.get().as_str()),
        ParserNode::LoadAddr(x) => Some(x.name.get().as_str()),
        _ => None,
    }
}

/// Static (non-register) part of an instruction's identity.
fn same_static(a: &RInst, b: &RInst) -> bool {
    match (a, b) {
        (RInst::Load { width: w1, signed: s1, .. }, RInst::Load { width: w2, signed: s2, .. }) => w1 == w2 && s1 == s2,
        (RInst::Load { .. }, _) | (_, RInst::Load { .. }) => false,
        (RInst::Store { width: w1, .. }, RInst::Store { width: w2, .. }) => w1 == w2,
        (RInst::Store { .. }, _) | (_, RInst::Store { .. }) => false,
        (RInst::Csr { op: o1, csr: c1, .. }, RInst::Csr { op: o2, csr: c2, .. }) => o1 == o2 && c1 == c2,
        (RInst::CsrImm { op: o1, csr: c1, .. }, RInst::CsrImm { op: o2, csr: c2, .. }) => o1 == o2 && c1 == c2,
        (RInst::Csr { .. }, _) | (_, RInst::Csr { .. }) | (RInst::CsrImm { .. }, _) | (_, RInst::CsrImm { .. }) => false,
        (RInst::System, RInst::System) => true,
        (RInst::System, _) | (_, RInst::System) => false,
        _ => true,
    }
}

pub fn text_case<S: Src>(s: &mut S, text: &str, expected: &[RInst], label: Option<&str>) {
    let mut lx = Lexer::new(text, uuid::Uuid::nil()).peekable();
    let parsed = ParserNode::try_from(&mut lx);
    let mut nodes: Vec<ParserNode> = Vec::with_capacity(2);
    match parsed {
        Ok(n) => nodes.push(n),
        Err(LexError::NeedTwoNodes(a, b)) => {
            nodes.push(*a);
            nodes.push(*b);
        }
        Err(e) => {
            assert!(false, "[C08] operand form of the catalogue was rejected by the parser");
            core::mem::forget(e);
        }
    }
    assert!(nodes.len() == expected.len(), "[C08] text expands to a different number of instructions");
    let mut regs = draw_regs(s);
    let loaded = s.u32();
    let pc = s.u32();
    let mut saw_label = label.is_none();
    let mut i = 0;
    while i < nodes.len() && i < expected.len() {
        let exp = expected[i];
        let got = node_meaning(&nodes[i], LA_ADDR);
        assert!(got.is_some(), "[C08] parsed node has no RV32IM meaning");
        if let Some(got) = got {
            assert!(same_static(&got, &exp), "[C08] instruction class / width / CSR differs from the manual's meaning of the text");
            assert!(rvref::arch_writes(&got) == rvref::arch_writes(&exp), "[C08] destination register differs from the manual's meaning of the text");
            assert!(
                rvref::effect(&got, &regs, pc) == rvref::effect(&exp, &regs, pc),
                "[C08,C13] effect differs from the manual's meaning of the text for some register contents"
            );
        }
        if let Some(l) = node_label(&nodes[i]) {
            assert!(Some(l) == label, "[C08] target label differs from the text");
            saw_label = true;
        }
        // advance the (shared) machine state by the expected instruction
        let eff = rvref::effect(&exp, &regs, pc);
        if let Some(rd) = rvref::arch_writes(&exp) {
            let v = match exp {
                RInst::Load { .. } => loaded,
                _ => eff.rd_value.unwrap_or(loaded),
            };
            regs.set(rd, v);
        }
        i += 1;
    }
    assert!(saw_label, "[C08] label operand of the text is missing from the node");
    crate::witness!(true, "W:end");
    core::mem::forget((nodes, lx));
}
