//! C08.d (architectural read/write sets and instruction predicates), C01.d
//! (kill sets) and the use/def clause behind C02's gen/kill tables.
//!
//! Node fields (register numbers, opcode index, immediate) are symbolic; the
//! node is built by the real constructors; every property function of the
//! real `InstructionProperties`/`HasGenKillInfo` impls is compared with the
//! ISA-level description of the same instruction in `rvref`.

use crate::mk::{self, Fields, Kind};
use crate::ob_regs::{ARG, RA, SAVED, SP, TEMP};
use crate::rvref::{self, Alu, Cond, CsrOp, RInst, Regs, Width};
use crate::src::Src;
use riscv_analysis::analysis::HasGenKillInfo;
use riscv_analysis::cfg::RegisterSet;
use riscv_analysis::parser::{InstructionProperties, ParserNode, Register};

const ARITH_ALU: [Alu; 18] = [
    Alu::Add, Alu::Sub, Alu::And, Alu::Or, Alu::Xor, Alu::Sll, Alu::Srl, Alu::Sra, Alu::Slt,
    Alu::Sltu, Alu::Mul, Alu::Mulh, Alu::Mulhsu, Alu::Mulhu, Alu::Div, Alu::Divu, Alu::Rem, Alu::Remu,
];
// order of mk::IARITH: addi andi ori xori slli srli srai slti sltiu (lui auipc handled apart)
const IARITH_ALU: [Alu; 9] = [
    Alu::Add, Alu::And, Alu::Or, Alu::Xor, Alu::Sll, Alu::Srl, Alu::Sra, Alu::Slt, Alu::Sltu,
];
const BRANCH_COND: [Cond; 6] = [Cond::Eq, Cond::Ne, Cond::Lt, Cond::Ge, Cond::Ltu, Cond::Geu];
const LOAD_W: [(Width, bool); 5] = [(Width::B, true), (Width::B, false), (Width::H, true), (Width::H, false), (Width::W, true)];
const STORE_W: [Width; 3] = [Width::B, Width::H, Width::W];
const CSR_OP: [CsrOp; 3] = [CsrOp::Rw, CsrOp::Rs, CsrOp::Rc];

/// ISA-level meaning of the node `mk::build(f)` builds. `None`: no RV32IM
/// register semantics to compare with (entries) or a form the parser never
/// produces (lui/auipc with a source register).
pub fn meaning(f: &Fields, la_addr: u32) -> Option<RInst> {
    let op = f.op as usize;
    Some(match f.kind {
        Kind::Arith => RInst::Alu { op: ARITH_ALU[op % 18], rd: f.rd, rs1: f.rs1, rs2: f.rs2 },
        Kind::IArith => {
            if op % 11 < 9 {
                RInst::AluImm { op: IARITH_ALU[op % 11], rd: f.rd, rs1: f.rs1, imm: f.imm }
            } else if op % 11 == 9 {
                // lui: the parser stores the shifted immediate and x0 as source
                if f.rs1 != 0 {
                    return None;
                }
                RInst::Const { rd: f.rd, value: f.imm as u32 }
            } else {
                return None; // auipc: pc-relative, not modelled
            }
        }
        Kind::Jal => RInst::Jal { rd: f.rd },
        Kind::Jalr => RInst::Jalr { rd: f.rd, rs1: f.rs1, imm: f.imm },
        Kind::Basic => RInst::System,
        Kind::Branch => RInst::Branch { cond: BRANCH_COND[op % 6], rs1: f.rs1, rs2: f.rs2 },
        Kind::Store => RInst::Store { width: STORE_W[op % 3], rs1: f.rs1, rs2: f.rs2, imm: f.imm },
        Kind::Load => {
            let (width, signed) = LOAD_W[op % 5];
            RInst::Load { width, signed, rd: f.rd, rs1: f.rs1, imm: f.imm }
        }
        Kind::La => RInst::Const { rd: f.rd, value: la_addr },
        Kind::Csr => RInst::Csr { op: CSR_OP[op % 3], rd: f.rd, csr: f.csr, rs1: f.rs1 },
        Kind::CsrI => RInst::CsrImm { op: CSR_OP[op % 3], rd: f.rd, csr: f.csr, uimm: f.imm as u32 },
        Kind::FuncEntry | Kind::ProgramEntry => return None,
    })
}

pub fn draw_regs<S: Src>(s: &mut S) -> Regs {
    let mut r = [0u32; 32];
    let mut i = 0;
    while i < 32 {
        r[i] = s.u32();
        i += 1;
    }
    Regs(r)
}

fn mask_of(set: &RegisterSet, q: u8) -> bool {
    set.contains(&mk::reg(q))
}

/// `group`: 0 reads_from/writes_to, 1 kill_reg, 2 gen_reg, 3 memory operands and
/// jump predicates (one harness per group keeps the formula small).
fn props<S: Src>(s: &mut S, kind: Kind, group: u8) {
    let f = mk::draw_fields(s, kind);
    let q = s.reg();
    let node: ParserNode = mk::build(&f);
    let m = meaning(&f, 0x1000_0000);
    let is_call = kind == Kind::Jal && f.rd == 1;
    let is_ret = (kind == Kind::Jalr && f.rd == 0 && f.rs1 == 1 && f.imm == 0) || (kind == Kind::Basic && f.op % 3 == 2);
    let is_uret = kind == Kind::Basic && f.op % 3 == 2;

    if let Some(ri) = m {
        crate::seen!(true, "I:node with ISA meaning");
        if group == 0 {
            // read set == source fields of the format (x0 carries no value)
            let reads = node.reads_from();
            let mut got: u32 = 0;
            for t in &reads {
                got |= 1 << t.get().to_num();
            }
            assert!(got & !1 == rvref::arch_reads(&ri) & !1, "[C08,C02] reads_from is not the architectural source-register set");
            core::mem::forget(reads);
            // written register == destination field
            let wr = node.writes_to();
            assert!(
                wr.as_ref().map(|x| x.get().to_num()) == rvref::arch_writes(&ri),
                "[C08,C02] writes_to is not the architectural destination register"
            );
            core::mem::forget(wr);
        }
        if group == 1 {
            let kill = node.kill_reg();
            let want_kill = if is_call {
                TEMP | ARG
            } else {
                match rvref::arch_writes(&ri) {
                    Some(rd) if rd != 0 => 1u32 << rd,
                    _ => 0,
                }
            };
            assert!(mask_of(&kill, q) == ((want_kill >> q) & 1 == 1), "[C01,C02] kill_reg is not (rd) (caller-saved at calls) minus x0");
        }
        if group == 2 {
            let gen = node.gen_reg();
            let want_gen = if is_uret {
                !1u32
            } else if is_ret {
                SAVED | RA | SP
            } else {
                rvref::arch_reads(&ri) & !1
            };
            assert!(mask_of(&gen, q) == ((want_gen >> q) & 1 == 1), "[C02] gen_reg is not the source registers (callee-saved at ret) minus x0");
        }
        if group == 3 {
            // effective address of memory accesses
            let regs = draw_regs(s);
            let eff = rvref::effect(&ri, &regs, 0x400);
            if let Some((base, imm)) = node.uses_memory_location() {
                assert!(
                    Some(regs.get(base.to_num()).wrapping_add(imm.value() as u32)) == eff.addr,
                    "[C08] uses_memory_location is not the effective address base+offset"
                );
            } else {
                assert!(eff.addr.is_none(), "[C08] memory access without uses_memory_location");
            }
            if let Some(((base, imm), dest)) = node.reads_from_memory() {
                assert!(matches!(ri, RInst::Load { .. }), "[C08] reads_from_memory on a non-load");
                assert!(Some(regs.get(base.to_num()).wrapping_add(imm.value() as u32)) == eff.addr, "[C08] load address");
                assert!(Some(dest.to_num()) == rvref::arch_writes(&ri), "[C08] load destination");
            } else {
                assert!(!matches!(ri, RInst::Load { .. }), "[C08] load without reads_from_memory");
            }
            if let Some((src, (base, imm))) = node.stores_to_memory() {
                assert!(matches!(ri, RInst::Store { .. }), "[C08] stores_to_memory on a non-store");
                assert!(Some(regs.get(base.to_num()).wrapping_add(imm.value() as u32)) == eff.addr, "[C08] store address");
                if let RInst::Store { rs2, .. } = ri {
                    assert!(src.to_num() == rs2, "[C08] stored register");
                }
            }
            // an "unconditional jump" is taken for every register file and links nothing
            if node.is_unconditional_jump() {
                crate::seen!(true, "I:unconditional jump");
                assert!(eff.taken == Some(true), "[C08,C03] is_unconditional_jump but some register file falls through");
                assert!(rvref::arch_writes(&ri).unwrap_or(0) == 0, "[C08,C03] is_unconditional_jump but it links a register");
            }
            if kind == Kind::Jal || kind == Kind::Jalr {
                assert!(node.is_unconditional_jump() == (f.rd == 0), "[C08,C03] jal/jalr with rd=x0 is exactly the unconditional jump");
            }
        }
    }
    if group == 3 {
        assert!(node.is_return() == is_ret, "[C08] is_return is not (jalr x0, 0(ra)) or uret");
        assert!(node.is_ureturn() == is_uret, "[C08] is_ureturn");
        let c = node.calls_to();
        assert!(c.is_some() == is_call, "[C08,C11] calls_to is not jal with rd=ra");
        let j = node.jumps_to();
        assert!(
            j.is_some() == ((kind == Kind::Jal && f.rd != 1) || kind == Kind::Branch),
            "[C08,C03] jumps_to is not (jal with rd!=ra) or branch"
        );
        let a = node.reads_address_of();
        assert!(a.is_some() == (kind == Kind::La), "[C08] reads_address_of");
        core::mem::forget((c, j, a));
        assert!(node.is_ecall() == (kind == Kind::Basic && f.op % 3 == 0), "[C08] is_ecall");
        assert!(node.is_instruction() == !(kind == Kind::FuncEntry || kind == Kind::ProgramEntry), "[C08] is_instruction");
    }
    if kind == Kind::FuncEntry && group == 1 {
        let kill = node.kill_reg();
        assert!(mask_of(&kill, q) == (((TEMP | ARG) >> q) & 1 == 1), "[C01,C02] function entry kills the caller-saved registers");
        assert!(node.is_function_entry() && node.is_any_entry(), "[C08] function entry predicates");
        assert!(node.is_handler_function_entry() == f.handler, "[C08] handler entry predicate");
    }
    crate::witness!(true, "W:end");
    core::mem::forget(node);
}

/// Oracle self-check: `arch_reads` really is the set `effect` depends on.
fn oracle_noninterference<S: Src>(s: &mut S, kind: Kind) {
    let f = mk::draw_fields(s, kind);
    if let Some(ri) = meaning(&f, 0x1000_0000) {
        let r1 = draw_regs(s);
        let mut r2 = draw_regs(s);
        let reads = rvref::arch_reads(&ri);
        let mut i: u8 = 0;
        while i < 32 {
            if (reads >> i) & 1 == 1 {
                r2.0[i as usize] = r1.0[i as usize];
            }
            i += 1;
        }
        assert!(rvref::effect(&ri, &r1, 0x400) == rvref::effect(&ri, &r2, 0x400), "[oracle] effect depends on a register outside arch_reads");
    }
    crate::witness!(true, "W:end");
}

macro_rules! props_harnesses {
    ($($name:ident, $kind:expr, $group:expr;)*) => {
        crate::obligations! {
            $(
                #[kani::stub(uuid::Uuid::new_v4, crate::stubs::uuid_counter)]
                #[kani::unwind(34)]
                fn $name(s) { props(s, $kind, $group) }
            )*
            #[kani::unwind(34)]
            fn oracle_ni_arith(s) { oracle_noninterference(s, Kind::Arith) }
            #[kani::unwind(34)]
            fn oracle_ni_iarith(s) { oracle_noninterference(s, Kind::IArith) }
            #[kani::unwind(34)]
            fn oracle_ni_jalr(s) { oracle_noninterference(s, Kind::Jalr) }
            #[kani::unwind(34)]
            fn oracle_ni_branch(s) { oracle_noninterference(s, Kind::Branch) }
            #[kani::unwind(34)]
            fn oracle_ni_store(s) { oracle_noninterference(s, Kind::Store) }
            #[kani::unwind(34)]
            fn oracle_ni_load(s) { oracle_noninterference(s, Kind::Load) }
            #[kani::unwind(34)]
            fn oracle_ni_csr(s) { oracle_noninterference(s, Kind::Csr) }
        }
    };
}

props_harnesses! {
    props_arith_rw, Kind::Arith, 0;
    props_arith_kill, Kind::Arith, 1;
    props_arith_gen, Kind::Arith, 2;
    props_arith_misc, Kind::Arith, 3;
    props_iarith_rw, Kind::IArith, 0;
    props_iarith_kill, Kind::IArith, 1;
    props_iarith_gen, Kind::IArith, 2;
    props_iarith_misc, Kind::IArith, 3;
    props_jal_rw, Kind::Jal, 0;
    props_jal_kill, Kind::Jal, 1;
    props_jal_gen, Kind::Jal, 2;
    props_jal_misc, Kind::Jal, 3;
    props_jalr_rw, Kind::Jalr, 0;
    props_jalr_kill, Kind::Jalr, 1;
    props_jalr_gen, Kind::Jalr, 2;
    props_jalr_misc, Kind::Jalr, 3;
    props_basic_rw, Kind::Basic, 0;
    props_basic_kill, Kind::Basic, 1;
    props_basic_gen, Kind::Basic, 2;
    props_basic_misc, Kind::Basic, 3;
    props_branch_rw, Kind::Branch, 0;
    props_branch_kill, Kind::Branch, 1;
    props_branch_gen, Kind::Branch, 2;
    props_branch_misc, Kind::Branch, 3;
    props_store_rw, Kind::Store, 0;
    props_store_kill, Kind::Store, 1;
    props_store_gen, Kind::Store, 2;
    props_store_misc, Kind::Store, 3;
    props_load_rw, Kind::Load, 0;
    props_load_kill, Kind::Load, 1;
    props_load_gen, Kind::Load, 2;
    props_load_misc, Kind::Load, 3;
    props_la_rw, Kind::La, 0;
    props_la_kill, Kind::La, 1;
    props_la_gen, Kind::La, 2;
    props_la_misc, Kind::La, 3;
    props_csr_rw, Kind::Csr, 0;
    props_csr_kill, Kind::Csr, 1;
    props_csr_gen, Kind::Csr, 2;
    props_csr_misc, Kind::Csr, 3;
    props_csri_rw, Kind::CsrI, 0;
    props_csri_kill, Kind::CsrI, 1;
    props_csri_gen, Kind::CsrI, 2;
    props_csri_misc, Kind::CsrI, 3;
    props_funcentry_rw, Kind::FuncEntry, 0;
    props_funcentry_kill, Kind::FuncEntry, 1;
    props_funcentry_gen, Kind::FuncEntry, 2;
    props_funcentry_misc, Kind::FuncEntry, 3;
}
