//! Value sources.  Every obligation body is generic over `Src`; the Kani
//! harness instantiates it with `KaniSrc` (each draw is a fresh symbolic
//! value), the native replay binary with `ReplaySrc` (each draw consumes the
//! next byte vector of a Kani concrete-playback counterexample).  Only
//! primitive draws are offered so that the mapping draw <-> playback vector is
//! one to one.

pub trait Src {
    fn u8(&mut self) -> u8;
    fn u32(&mut self) -> u32;
    fn i32(&mut self) -> i32;
    fn u64(&mut self) -> u64;
    fn usize(&mut self) -> usize;
    fn bool(&mut self) -> bool;
    /// Restrict the explored inputs. Must be called before the code it constrains.
    fn assume(&mut self, cond: bool);
    /// Reachability witness (vacuity guard).
    fn cover(&mut self, cond: bool, what: &'static str);
    /// A register number 0..32 (assumed in range).
    fn reg(&mut self) -> u8 {
        let r = self.u8();
        self.assume(r < 32);
        r
    }
    /// Choice in 0..n
    fn choice(&mut self, n: u8) -> u8 {
        let r = self.u8();
        self.assume(r < n);
        r
    }
}

#[cfg(kani)]
pub struct KaniSrc;

#[cfg(kani)]
impl Src for KaniSrc {
    fn u8(&mut self) -> u8 {
        kani::any()
    }
    fn u32(&mut self) -> u32 {
        kani::any()
    }
    fn i32(&mut self) -> i32 {
        kani::any()
    }
    fn u64(&mut self) -> u64 {
        kani::any()
    }
    fn usize(&mut self) -> usize {
        kani::any()
    }
    fn bool(&mut self) -> bool {
        kani::any()
    }
    fn assume(&mut self, cond: bool) {
        kani::assume(cond);
    }
    fn cover(&mut self, cond: bool, _what: &'static str) {
        kani::cover!(cond);
    }
}

/// Replays a Kani counterexample: `vals[i]` is the little-endian byte vector
/// of the i-th `kani::any()` of the harness.
pub struct ReplaySrc {
    pub vals: Vec<Vec<u8>>,
    pub next: usize,
    pub assumption_violated: bool,
    pub exhausted: bool,
}

impl ReplaySrc {
    pub fn new(vals: Vec<Vec<u8>>) -> Self {
        ReplaySrc {
            vals,
            next: 0,
            assumption_violated: false,
            exhausted: false,
        }
    }
    fn take(&mut self, n: usize) -> u64 {
        let v = match self.vals.get(self.next) {
            Some(v) => v.clone(),
            None => {
                self.exhausted = true;
                vec![0; n]
            }
        };
        self.next += 1;
        let mut out: u64 = 0;
        for (i, b) in v.iter().take(8).enumerate() {
            out |= u64::from(*b) << (8 * i);
        }
        out
    }
}

pub struct AssumptionViolated;

impl Src for ReplaySrc {
    fn u8(&mut self) -> u8 {
        self.take(1) as u8
    }
    fn u32(&mut self) -> u32 {
        self.take(4) as u32
    }
    fn i32(&mut self) -> i32 {
        self.take(4) as u32 as i32
    }
    fn u64(&mut self) -> u64 {
        self.take(8)
    }
    fn usize(&mut self) -> usize {
        self.take(8) as usize
    }
    fn bool(&mut self) -> bool {
        self.take(1) != 0
    }
    fn assume(&mut self, cond: bool) {
        if !cond {
            self.assumption_violated = true;
            std::panic::panic_any(AssumptionViolated);
        }
    }
    fn cover(&mut self, _cond: bool, _what: &'static str) {}
}
