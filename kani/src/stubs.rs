//! Kani stubs.  Each one is part of the claim (see DESIGN.md, "Stubs").

use std::sync::atomic::{AtomicU64, Ordering};

static NEXT_UUID: AtomicU64 = AtomicU64::new(1);

/// Replaces `uuid::Uuid::new_v4` (OS randomness; Kani cannot compile the SIMD
/// RNG).  Injective counter: node ids are only ever compared for equality.
pub fn uuid_counter() -> uuid::Uuid {
    let n = NEXT_UUID.fetch_add(1, Ordering::Relaxed);
    uuid::Uuid::from_u64_pair(0x5eed_0000_0000_0000, n)
}

/// Replaces `str::to_lowercase` (Unicode tables) by byte-wise ASCII lower-casing.
/// Sound for ASCII input, which is all the lexer can put into a symbol token.
pub fn ascii_lowercase(s: &str) -> String {
    s.to_ascii_lowercase()
}

/// Replaces `alloc::fmt::format`: formatting is not the subject; the
/// arguments have already been evaluated by the caller.
pub fn empty_format(_args: std::fmt::Arguments<'_>) -> String {
    String::new()
}
